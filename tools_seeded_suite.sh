#!/bin/sh
# usage: tools_seeded_suite.sh <seeded dir>...
# Applies each patch to a scratch worktree of /repo's HEAD (outside /repo and
# /verif), runs the pinned test suite there, compares with the baseline lists
# and writes <seeded dir>/suite.txt.  The worktree is removed afterwards.
for sd in "$@"; do
  sd=$(cd "$sd" && pwd)
  dir=$(mktemp -d /tmp/vj-suite-XXXXXX); rmdir "$dir"
  git -C /repo worktree add -q --detach "$dir" HEAD || exit 2
  if git -C "$dir" apply --3way "$sd/patch.diff" 2>/dev/null || git -C "$dir" apply "$sd/patch.diff"; then
    (cd "$dir" && env GIT_CONFIG_COUNT=1 GIT_CONFIG_KEY_0=init.defaultBranch GIT_CONFIG_VALUE_0=master \
       /venv/bin/python -m pytest -q -p no:cacheprovider --timeout=900 --continue-on-collection-errors \
       --junitxml="$dir/junit.xml" >/dev/null 2>&1)
    { echo "suite with $(basename "$sd") applied on $(git -C /repo log --format=%h -1):"; \
      /venv/bin/python /verif/tools_baseline_compare.py "$dir/junit.xml"; } > "$sd/suite.txt" 2>&1
  else
    echo "patch does not apply" > "$sd/suite.txt"
  fi
  git -C /repo worktree remove --force "$dir" >/dev/null 2>&1; rm -rf "$dir"
  echo "$(basename "$sd"): $(tail -2 "$sd/suite.txt" | tr '\n' ' ')"
done
