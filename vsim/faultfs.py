"""vsim.faultfs -- file-system fault seam.

Real files in a scratch tree; ``builtins.open`` / ``io.open`` are wrapped by a
pass-through that injects faults only for paths under the scratch root and
only while a plan is installed (``os.open`` too: a file object made with
``os.fdopen`` from a descriptor opened under the root is treated alike):

  write side   crash@(file i, byte k)   k bytes reach the file, then SimCrash
               eio/enospc@(file i, byte k)  short write, then OSError
               open-fail@(file i, errno)
  read side    read-eio@(file i, byte k), open-fail@(file i, errno)

"file i" is the i-th open of that side (write / read) under the root since the
plan was installed.  A SimCrash is a BaseException: it unwinds the whole
simulated process; only what reached the files survives.
"""
import io
import os
import errno
import builtins

from .core import SimCrash

_REAL_OPEN = builtins.open
_REAL_IO_OPEN = io.open
_REAL_OS_OPEN = os.open

ERRNOS = {'EACCES': errno.EACCES, 'ENOSPC': errno.ENOSPC,
          'EMFILE': errno.EMFILE, 'EISDIR': errno.EISDIR,
          'EIO': errno.EIO, 'EROFS': errno.EROFS, 'ENOENT': errno.ENOENT}


class _WriteProxy:
    def __init__(self, fs, real, index, path):
        self._fs = fs
        self._real = real
        self._index = index
        self._path = path
        self._count = 0

    def write(self, data):
        fs = self._fs
        size = len(data)
        flt = fs.write_fault(self._index)
        if flt is not None and self._count + size > flt['byte']:
            keep = max(0, flt['byte'] - self._count)
            part = data[:keep]
            if keep:
                self._real.write(part)
            self._real.flush()
            self._count += keep
            fs.fired(flt)
            if flt['kind'] == 'crash':
                raise SimCrash('crash at byte %d of %s'
                               % (flt['byte'], self._path))
            raise OSError(ERRNOS[flt.get('errno', 'EIO')],
                          os.strerror(ERRNOS[flt.get('errno', 'EIO')]),
                          self._path)
        self._count += size
        return self._real.write(data)

    def writelines(self, lines):
        for line in lines:
            self.write(line)

    def __enter__(self):
        return self

    def __exit__(self, *exc):
        self.close()
        return False

    def close(self):
        fs = self._fs
        flt = fs.write_fault(self._index)
        if flt is not None and flt['kind'] == 'crash' and \
                flt['byte'] >= self._count and not flt.get('_fired'):
            # crash point lies at/after the end of what was written: the
            # process dies right after the last write, before close returns
            self._real.close()
            fs.fired(flt)
            raise SimCrash('crash after the last byte of %s' % self._path)
        self._real.close()

    def __getattr__(self, name):
        return getattr(self._real, name)

    def __iter__(self):
        return iter(self._real)


class _ReadProxy:
    def __init__(self, fs, real, index, path):
        self._fs = fs
        self._real = real
        self._index = index
        self._path = path
        self._count = 0

    def _check(self, upcoming):
        flt = self._fs.read_fault(self._index)
        if flt is not None and self._count + upcoming > flt['byte']:
            self._fs.fired(flt)
            raise OSError(ERRNOS['EIO'], os.strerror(ERRNOS['EIO']),
                          self._path)

    def read(self, size=-1):
        if size is None or size < 0:
            data = self._real.read()
            self._check(len(data))
        else:
            self._check(size if size else 0)
            data = self._real.read(size)
        self._count += len(data)
        return data

    def readline(self, size=-1):
        data = self._real.readline(size)
        self._check(len(data))
        self._count += len(data)
        return data

    def readinto(self, buf):
        self._check(len(buf))
        num = self._real.readinto(buf)
        self._count += num or 0
        return num

    def __enter__(self):
        return self

    def __exit__(self, *exc):
        self._real.close()
        return False

    def __getattr__(self, name):
        if name == 'peek':
            raise AttributeError(name)
        return getattr(self._real, name)

    def __iter__(self):
        return iter(self._real)


class FaultFS:
    '''Fault plan for one simulated process.'''

    def __init__(self, root, plan=()):
        self.root = os.path.realpath(root) + os.sep
        self.plan = [dict(p) for p in plan]
        self.nwrite = 0
        self.nread = 0
        self.log = []          # (side, index, relative path)
        self.fired_log = []
        self.fdmap = {}        # descriptors from os.open() under the root

    # plan lookup ---------------------------------------------------------
    def write_fault(self, index):
        for flt in self.plan:
            if flt['kind'] in ('crash', 'eio') and flt['file'] == index \
                    and not flt.get('_fired'):
                return flt
        return None

    def read_fault(self, index):
        for flt in self.plan:
            if flt['kind'] == 'read-eio' and flt['file'] == index \
                    and not flt.get('_fired'):
                return flt
        return None

    def open_fault(self, side, index):
        for flt in self.plan:
            if flt['kind'] == 'open-fail' and flt.get('side', 'w') == side \
                    and flt['file'] == index and not flt.get('_fired'):
                return flt
        return None

    def fired(self, flt):
        flt['_fired'] = True
        self.fired_log.append({k: v for k, v in flt.items() if k != '_fired'})

    # the seam ------------------------------------------------------------
    def os_open(self, path, flags, *args, **kwargs):
        '''Code that opens through os.open() + os.fdopen(): the descriptor is
        remembered, so that the file object made from it gets the faults of
        the plan like one made by open(path).'''
        full = self._inside(path) if 'dir_fd' not in kwargs else None
        writing = bool(flags & (os.O_WRONLY | os.O_RDWR))
        if full is not None:
            side = 'w' if writing else 'r'
            flt = self.open_fault(side, self.nwrite if writing
                                  else self.nread)
            if flt is not None:
                self.nwrite += writing
                self.nread += not writing
                self.log.append((side, flt['file'], full[len(self.root):]))
                self.fired(flt)
                code = ERRNOS[flt.get('errno', 'EACCES')]
                raise OSError(code, os.strerror(code), str(path))
        fdesc = _REAL_OS_OPEN(path, flags, *args, **kwargs)
        if full is not None:
            self.fdmap[fdesc] = full
        else:
            self.fdmap.pop(fdesc, None)
        return fdesc

    def _inside(self, file):
        if isinstance(file, int):
            return self.fdmap.pop(file, None)
        try:
            path = os.fspath(file)
        except TypeError:
            return None
        if isinstance(path, bytes):
            path = os.fsdecode(path)
        full = os.path.realpath(path)
        if (full + os.sep).startswith(self.root) or full.startswith(self.root):
            return full
        return None

    def open(self, file, mode='r', *args, **kwargs):
        full = self._inside(file)
        if full is None:
            return _REAL_OPEN(file, mode, *args, **kwargs)
        writing = any(ch in mode for ch in 'wax+')
        side = 'w' if writing else 'r'
        index = self.nwrite if writing else self.nread
        if writing:
            self.nwrite += 1
        else:
            self.nread += 1
        self.log.append((side, index, full[len(self.root):]))
        flt = self.open_fault(side, index) \
            if not isinstance(file, int) else None
        if flt is not None:
            self.fired(flt)
            code = ERRNOS[flt.get('errno', 'EACCES')]
            raise OSError(code, os.strerror(code), str(file))
        real = _REAL_OPEN(file, mode, *args, **kwargs)
        if writing:
            return _WriteProxy(self, real, index, full)
        return _ReadProxy(self, real, index, full)


_ACTIVE = None


def _dispatch(file, mode='r', *args, **kwargs):
    fs = _ACTIVE
    if fs is None:
        return _REAL_OPEN(file, mode, *args, **kwargs)
    return fs.open(file, mode, *args, **kwargs)


def _os_dispatch(path, flags, *args, **kwargs):
    fs = _ACTIVE
    if fs is None:
        return _REAL_OS_OPEN(path, flags, *args, **kwargs)
    return fs.os_open(path, flags, *args, **kwargs)


def installed():
    return builtins.open is _dispatch


def install():
    '''Wrap open() once per process; a pure pass-through while no plan is
    active and for every path outside the active plan's root.'''
    builtins.open = _dispatch
    io.open = _dispatch
    os.open = _os_dispatch


def uninstall():
    builtins.open = _REAL_OPEN
    io.open = _REAL_IO_OPEN
    os.open = _REAL_OS_OPEN


class active:
    '''Context manager: ``with faultfs.active(FaultFS(root, plan)) as fs:``'''

    def __init__(self, fs):
        self.fs = fs

    def __enter__(self):
        global _ACTIVE
        if not installed():
            install()
        self.prev = _ACTIVE
        _ACTIVE = self.fs
        return self.fs

    def __exit__(self, *exc):
        global _ACTIVE
        _ACTIVE = self.prev
        return False
