"""Deep comparison of result structures (numpy-aware, NaN equals NaN)."""
import math
from collections import OrderedDict

try:
    import numpy as np
except ImportError:     # pragma: no cover
    np = None


def deep_diff(left, right, path='', out=None, limit=8):
    '''Return a list of paths where ``left`` and ``right`` differ.'''
    if out is None:
        out = []
    if len(out) >= limit:
        return out
    if left is right:
        return out
    if np is not None and (isinstance(left, np.ndarray)
                           or isinstance(right, np.ndarray)):
        if not (isinstance(left, np.ndarray) and isinstance(right, np.ndarray)):
            out.append('%s: ndarray vs %s' % (path, type(right).__name__
                                              if isinstance(left, np.ndarray)
                                              else type(left).__name__))
            return out
        if left.shape != right.shape or left.dtype != right.dtype:
            out.append('%s: shape/dtype %s%s vs %s%s'
                       % (path, left.shape, left.dtype, right.shape,
                          right.dtype))
            return out
        if left.dtype.names:
            for name in left.dtype.names:
                deep_diff(left[name], right[name], '%s.%s' % (path, name),
                          out, limit)
            return out
        if left.dtype == object:
            for idx, (a, b) in enumerate(zip(left.ravel(), right.ravel())):
                deep_diff(a, b, '%s[%d]' % (path, idx), out, limit)
            return out
        try:
            same = np.array_equal(left, right, equal_nan=True)
        except TypeError:
            same = np.array_equal(left, right)
        if not same:
            out.append('%s: array values differ' % path)
        return out
    if isinstance(left, float) and isinstance(right, float):
        if left != right and not (math.isnan(left) and math.isnan(right)):
            out.append('%s: %r != %r' % (path, left, right))
        return out
    if np is not None and isinstance(left, np.generic) \
            and isinstance(right, np.generic):
        if left.dtype != right.dtype:
            out.append('%s: dtype %s vs %s' % (path, left.dtype, right.dtype))
        elif not (left == right or (left != left and right != right)):
            out.append('%s: %r != %r' % (path, left, right))
        return out
    if type(left) is not type(right):
        # OrderedDict vs dict etc. are different results
        out.append('%s: type %s vs %s' % (path, type(left).__name__,
                                          type(right).__name__))
        return out
    if isinstance(left, dict):
        lkeys, rkeys = list(left.keys()), list(right.keys())
        if set(map(repr, lkeys)) != set(map(repr, rkeys)):
            out.append('%s: keys %s vs %s' % (
                path, sorted(map(repr, lkeys))[:8],
                sorted(map(repr, rkeys))[:8]))
            return out
        for key in lkeys:
            deep_diff(left[key], right[key], '%s/%s' % (path, key), out, limit)
        return out
    if isinstance(left, (list, tuple)):
        if len(left) != len(right):
            out.append('%s: length %d vs %d' % (path, len(left), len(right)))
            return out
        for idx, (a, b) in enumerate(zip(left, right)):
            deep_diff(a, b, '%s[%d]' % (path, idx), out, limit)
        return out
    if isinstance(left, (set, frozenset)):
        if left != right:
            out.append('%s: sets differ' % path)
        return out
    if isinstance(left, (str, bytes, int, bool, type(None), complex)):
        if left != right:
            out.append('%s: %r != %r' % (path, left, right))
        return out
    if getattr(type(left), 'VERIF_COMPARE_WITH_EQ', False):
        if not left == right:
            out.append('%s: objects differ' % path)
        return out
    # generic objects: compare their state
    lstate = getattr(left, '__dict__', None)
    rstate = getattr(right, '__dict__', None)
    if lstate is not None and rstate is not None:
        lstate = {k: v for k, v in lstate.items() if k != 'lock'}
        rstate = {k: v for k, v in rstate.items() if k != 'lock'}
        deep_diff(lstate, rstate, path + '.__dict__', out, limit)
        return out
    slots = getattr(type(left), '__slots__', None)
    if slots:
        for name in slots:
            deep_diff(getattr(left, name, None), getattr(right, name, None),
                      '%s.%s' % (path, name), out, limit)
        return out
    try:
        if left != right:
            out.append('%s: %r != %r' % (path, left, right))
    except Exception as exc:   # noqa
        out.append('%s: comparison failed: %r' % (path, exc))
    return out


def deep_equal(left, right):
    return not deep_diff(left, right, limit=1)
