"""vsim.minimise -- shrink (scenario, schedule) while the same violation
signature persists.

``evaluate(scn, chooser)`` must return ``(signatures, preempts, digest)`` for
one simulated execution.  ``candidates(scn)`` yields smaller scenarios.
"""
import time
import random

from . import policy
from .driver import mix


def _find(evaluate, draw_chooser, scn, signature, hint, tries, deadline):
    '''Search schedules of ``scn`` for ``signature``.  Returns the pre-emption
    list of a reproducing run, or None.'''
    attempts = [policy.Preempt(hint)] if hint else []
    attempts.append(policy.Preempt([]))
    for chooser in attempts:
        sigs, pre, _dig = evaluate(scn, chooser)
        if signature in sigs:
            return pre
    for k in range(tries):
        if time.time() > deadline:
            return None
        rng = random.Random(mix(0x5eed, k))
        sigs, pre, _dig = evaluate(scn, draw_chooser(rng, scn))
        if signature in sigs:
            return pre
    return None


def ddmin(items, test, deadline):
    '''Classic delta debugging on a list; ``test(sub)`` true = still fails.'''
    n = 2
    while len(items) >= 2 and time.time() < deadline:
        size = max(1, len(items) // n)
        chunks = [items[i:i + size] for i in range(0, len(items), size)]
        reduced = False
        for i in range(len(chunks)):
            comp = [x for j, ch in enumerate(chunks) if j != i for x in ch]
            if test(comp):
                items = comp
                n = max(n - 1, 2)
                reduced = True
                break
        if not reduced:
            if n >= len(items):
                break
            n = min(len(items), n * 2)
    if len(items) == 1 and time.time() < deadline and test([]):
        items = []
    return items


def minimise(evaluate, draw_chooser, candidates, scn, preempts, signature,
             *, tries=120, budget_s=45.0):
    deadline = time.time() + budget_s
    stats = {'scenario_steps': 0, 'schedule_from': len(preempts)}
    # confirm
    sigs, pre, _dig = evaluate(scn, policy.Preempt(preempts))
    if signature not in sigs:
        return scn, preempts, stats, False
    preempts = pre
    progress = True
    while progress and time.time() < deadline:
        progress = False
        for cand in candidates(scn):
            if time.time() > deadline:
                break
            got = _find(evaluate, draw_chooser, cand, signature, preempts,
                        tries, deadline)
            if got is not None:
                scn, preempts = cand, got
                stats['scenario_steps'] += 1
                progress = True
                break
    # schedule shrinking

    def still(sub):
        sigs2, _pre2, _d2 = evaluate(scn, policy.Preempt(sub))
        return signature in sigs2
    preempts = ddmin(list(preempts), still, deadline + 15.0)
    # re-record so that the stored list is exactly what the run decides
    sigs, pre, _dig = evaluate(scn, policy.Preempt(preempts))
    ok = signature in sigs
    if ok:
        preempts = pre
    stats['schedule_to'] = len(preempts)
    return scn, [list(p) for p in preempts], stats, ok
