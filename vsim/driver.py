"""vsim.driver -- process pool, known findings, replay files, evidence.

Exit codes of a check: 0 = held on everything explored, 1 = violation (with a
``VIOLATION property=<id> replay=<path>`` line), 2 = harness error (never a
verdict: wall-clock kills, dead shards, unsupported code, diverged replay).
"""
import os
import sys
import json
import time
import hashlib
import faulthandler
import multiprocessing
import concurrent.futures as cf

VERIF = os.path.dirname(os.path.dirname(os.path.abspath(__file__)))
KNOWN_FILE = os.path.join(VERIF, 'known_findings.txt')
REPLAY_DIR = os.path.join(VERIF, 'replays')
EVIDENCE_DIR = os.path.join(VERIF, 'evidence')


class HarnessError(Exception):
    pass


def reexec_with_hashseed():
    '''One hash seed for every process of a check, so that set/dict iteration
    order inside the code under test cannot differ between record and
    replay.'''
    if os.environ.get('PYTHONHASHSEED') != '0':
        env = dict(os.environ)
        env['PYTHONHASHSEED'] = '0'
        os.execve(sys.executable, [sys.executable] + sys.argv, env)


def jobs():
    try:
        return max(1, int(os.environ.get('VERIF_JOBS', '16')))
    except ValueError:
        return 16


def base_seed():
    try:
        return int(os.environ.get('VERIF_SEED', '0'))
    except ValueError:
        return 0


def mix(*ints):
    '''Hash-free deterministic mixing of integers into one 63-bit seed.'''
    h = hashlib.blake2b(digest_size=8)
    for val in ints:
        h.update(str(val).encode() + b',')
    return int.from_bytes(h.digest(), 'big') >> 1


def scratch_root():
    for cand in (os.environ.get('VERIF_SCRATCH'), '/dev/shm',
                 os.environ.get('TMPDIR'), '/tmp'):
        if cand and os.path.isdir(cand) and os.access(cand, os.W_OK):
            return cand
    return '/tmp'


class RunHung(BaseException):
    """Raised in the main thread by ``watchdog`` (not an Exception: code
    under test that catches Exception and tries again cannot swallow it)."""


class watchdog:
    """``with watchdog(30):`` -- the body, code without threads run by the
    main thread of a shard process, is interrupted with RunHung when it has
    not ended after that many seconds of real time (typical body:
    milliseconds).  No-op outside the main thread."""

    def __init__(self, seconds):
        self.seconds = seconds
        self.armed = False

    def _alarm(self, _sig, _frm):
        raise RunHung()

    def __enter__(self):
        import signal
        import threading
        if threading.current_thread() is threading.main_thread():
            self.old = signal.signal(signal.SIGALRM, self._alarm)
            signal.setitimer(signal.ITIMER_REAL, self.seconds)
            self.armed = True
        return self

    def __exit__(self, *exc):
        import signal
        if self.armed:
            signal.setitimer(signal.ITIMER_REAL, 0)
            signal.signal(signal.SIGALRM, self.old)
        return False


def _limit_memory():
    '''A damaged pickle may ask for an absurd allocation: the code under test
    must see MemoryError, not take the machine (and the check) down.'''
    try:
        import resource
        cap = int(os.environ.get('VERIF_MEM_GB', '8')) << 30
        soft, hard = resource.getrlimit(resource.RLIMIT_AS)
        if hard == resource.RLIM_INFINITY or cap < hard:
            resource.setrlimit(resource.RLIMIT_AS, (cap, hard))
    except (ImportError, ValueError, OSError):
        pass


def _shard_entry(args):
    func, shard, wall = args
    faulthandler.enable()
    faulthandler.dump_traceback_later(wall, exit=True)
    _limit_memory()
    try:
        return func(shard)
    finally:
        faulthandler.cancel_dump_traceback_later()


def run_shards(func, shards, *, shard_wall=600, total_wall=None, njobs=None):
    '''Run ``func(shard)`` for every shard in a fork pool.  Raises
    HarnessError if a shard dies or the wall budget is exceeded.'''
    njobs = njobs or jobs()
    results = [None] * len(shards)
    if njobs == 1 or len(shards) == 1:
        for i, shard in enumerate(shards):
            results[i] = func(shard)
        return results
    ctx = multiprocessing.get_context('fork')
    start = time.time()
    with cf.ProcessPoolExecutor(max_workers=min(njobs, len(shards)),
                                mp_context=ctx) as pool:
        futs = {pool.submit(_shard_entry, (func, shard, shard_wall)): i
                for i, shard in enumerate(shards)}
        try:
            for fut in cf.as_completed(futs, timeout=total_wall):
                i = futs[fut]
                try:
                    results[i] = fut.result()
                except cf.process.BrokenProcessPool as exc:
                    raise HarnessError('shard %d died: %r' % (i, exc))
        except cf.TimeoutError:
            for proc in list(getattr(pool, '_processes', {}).values()):
                proc.kill()
            raise HarnessError('wall budget of %ss exceeded after %.0fs'
                               % (total_wall, time.time() - start))
    return results


def fork_each(func, items, *, njobs=None, wall=300):
    '''Evaluate ``func(item)`` for every item, each in a child forked from
    THIS process (so every evaluation starts from the state this process is
    in now, e.g. "modules imported, nothing parsed yet").  Results come back
    pickled through a scratch directory.  A child that dies or exceeds
    ``wall`` seconds raises HarnessError.'''
    import pickle
    import shutil
    import signal
    import tempfile
    njobs = njobs or jobs()
    tmp = tempfile.mkdtemp(prefix='vfork-', dir=scratch_root())
    results = [None] * len(items)
    pending = list(range(len(items)))
    running = {}
    try:
        while pending or running:
            while pending and len(running) < njobs:
                idx = pending.pop(0)
                sys.stdout.flush()
                pid = os.fork()
                if pid == 0:
                    code = 0
                    try:
                        signal.alarm(wall)
                        _limit_memory()
                        out = func(items[idx])
                        with open(os.path.join(tmp, '%d.pkl' % idx),
                                  'wb') as fil:
                            pickle.dump(out, fil)
                    except BaseException:   # noqa
                        import traceback
                        traceback.print_exc()
                        code = 3
                    finally:
                        os._exit(code)
                running[pid] = idx
            pid, status = os.wait()
            if pid not in running:
                continue
            idx = running.pop(pid)
            if status != 0:
                raise HarnessError('forked evaluation %d failed (status %d)'
                                   % (idx, status))
            with open(os.path.join(tmp, '%d.pkl' % idx), 'rb') as fil:
                results[idx] = pickle.load(fil)
    finally:
        for pid in running:
            try:
                os.kill(pid, 9)
            except OSError:
                pass
        shutil.rmtree(tmp, ignore_errors=True)
    return results


# ---------------------------------------------------------------------------
# known findings

def load_known():
    known, fixed = [], []
    if not os.path.exists(KNOWN_FILE):
        return known, fixed
    with open(KNOWN_FILE, encoding='utf-8') as fil:
        for line in fil:
            line = line.strip()
            if not line or line.startswith('#'):
                continue
            if line.startswith('known:'):
                fields = line[len('known:'):].split()
                ent = {'text': line}
                for fld in fields[:2]:
                    if '=' in fld:
                        key, val = fld.split('=', 1)
                        ent[key] = val
                known.append(ent)
            elif line.startswith('fixed:'):
                fixed.append(line)
    return known, fixed


def is_known(prop, signature, known):
    for ent in known:
        if ent.get('property') == prop and ent.get('signature') == signature:
            return ent
    return None


# ---------------------------------------------------------------------------
# replay files

def slug(text, limit=60):
    out = ''.join(ch if ch.isalnum() or ch in '-_' else '-' for ch in text)
    return out[:limit].strip('-') or 'x'


def write_replay(prop, doc):
    os.makedirs(REPLAY_DIR, exist_ok=True)
    body = json.dumps(doc, indent=1, sort_keys=True, default=repr)
    tag = hashlib.blake2b(body.encode(), digest_size=4).hexdigest()
    path = os.path.join(REPLAY_DIR, '%s-%s-%s.json'
                        % (prop, slug(doc.get('signature', 'v')), tag))
    with open(path, 'w', encoding='utf-8') as fil:
        fil.write(body + '\n')
    return path


def read_replay(path):
    with open(path, encoding='utf-8') as fil:
        return json.load(fil)


# ---------------------------------------------------------------------------
# evidence

def write_evidence(prop, tier, seed, level, coverage, wall_s, violations,
                   assumptions):
    os.makedirs(EVIDENCE_DIR, exist_ok=True)
    doc = {
        'property_id': prop,
        'tier': tier,
        'seed': seed,
        'level': level,
        'coverage': coverage,
        'assumptions': assumptions,
        'wall_s': round(wall_s, 3),
        'violations': violations,
    }
    path = os.path.join(EVIDENCE_DIR, '%s.json' % prop)
    tmp = path + '.tmp'
    with open(tmp, 'w', encoding='utf-8') as fil:
        json.dump(doc, fil, indent=1, sort_keys=True, default=repr)
        fil.write('\n')
    os.replace(tmp, path)
    return path


def report(prop, findings, known):
    '''findings: list of dicts with 'signature', 'what', 'replay' (path or
    None).  Prints KNOWN-FINDING / VIOLATION lines.  Returns the exit code.'''
    code = 0
    seen = set()
    for fnd in findings:
        sig = fnd['signature']
        if sig in seen:
            continue
        seen.add(sig)
        ent = is_known(prop, sig, known)
        if ent is not None:
            print('KNOWN-FINDING: property=%s signature=%s %s'
                  % (prop, sig, fnd.get('what', '')))
        else:
            print('VIOLATION property=%s replay=%s' % (prop, fnd['replay']))
            print('  signature=%s %s' % (sig, fnd.get('what', '')))
            code = 1
    sys.stdout.flush()
    return code
