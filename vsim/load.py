"""vsim.load -- bring the repository's code onto the simulated primitives.

No hook in /repo is needed: the modules that touch ``threading``/``time``/
``queue`` are (re-)imported while ``sys.modules`` points at the shims.
"""
import os
import sys
import logging
import warnings
import importlib

from . import core

REPO = os.environ.get('VERIF_REPO', '/repo')

_LOADED = {}

SIM_MODULES = [
    'valjean',
    'valjean.chrono',
    'valjean.config',
    'valjean.path',
    'valjean.cosette.task',
    'valjean.cosette.depgraph',
    'valjean.cosette.env',
    'valjean.cosette.pythontask',
    'valjean.cosette.backends.queue',
    'valjean.cosette.scheduler',
    'valjean.cosette.run',
    'valjean.cosette.code',
    'valjean.cambronne.common',
    'valjean.cambronne.commands.run',
]


def repo_path():
    return os.path.abspath(REPO)


def _prepare_path():
    repo = repo_path()
    if sys.path[0] != repo:
        sys.path.insert(0, repo)
    warnings.filterwarnings('ignore')


def load_plain(names):
    '''Import repository modules the ordinary way (no simulation).'''
    _prepare_path()
    mods = [importlib.import_module(n) for n in names]
    logging.disable(logging.CRITICAL)
    _check_origin(mods)
    return mods


def _check_origin(mods):
    repo = repo_path()
    for mod in mods:
        path = os.path.abspath(getattr(mod, '__file__', '') or '')
        if not path.startswith(repo + os.sep):
            raise RuntimeError('module %s was imported from %s, not from %s'
                               % (mod.__name__, path, repo))


def load_sim():
    '''Import the scheduler side of valjean over the simulated primitives.
    Returns a namespace dict of the modules, keyed by short name.'''
    if 'sim' in _LOADED:
        return _LOADED['sim']
    _prepare_path()
    # 1. plain import first, so that every third-party / stdlib dependency is
    #    loaded over the real threading module ...
    for name in SIM_MODULES:
        importlib.import_module(name)
    logging.disable(logging.CRITICAL)
    # 2. ... then drop valjean and import it again over the shims.
    mods = core.import_under_sim(SIM_MODULES, purge_prefix='valjean')
    _check_origin(mods)
    ns = {m.__name__: m for m in mods}
    short = {
        'task': ns['valjean.cosette.task'],
        'depgraph': ns['valjean.cosette.depgraph'],
        'env': ns['valjean.cosette.env'],
        'pythontask': ns['valjean.cosette.pythontask'],
        'queue': ns['valjean.cosette.backends.queue'],
        'scheduler': ns['valjean.cosette.scheduler'],
        'run': ns['valjean.cosette.run'],
        'code': ns['valjean.cosette.code'],
        'common': ns['valjean.cambronne.common'],
        'cmdrun': ns['valjean.cambronne.commands.run'],
        'config': ns['valjean.config'],
        'chrono': ns['valjean.chrono'],
        'path': ns['valjean.path'],
    }
    short['seams'] = seam_report(short)
    _LOADED['sim'] = short
    return short


def seam_report(short):
    '''Which seams actually bound to the simulator (goes into evidence).'''
    rep = {}
    for key in ('queue', 'env', 'chrono', 'run', 'scheduler', 'common'):
        mod = short[key]
        for attr in ('threading', 'time'):
            obj = getattr(mod, attr, None)
            if obj is not None:
                rep['%s.%s' % (key, attr)] = bool(getattr(obj, '__vsim__',
                                                          False))
    qcls = getattr(short['queue'], 'Queue', None)
    if qcls is not None:
        rep['queue.Queue'] = getattr(sys.modules.get(qcls.__module__), '__vsim__', False) \
            or qcls.__module__ == 'queue' and \
            getattr(qcls.__init__, '__globals__', {}).get('threading') is core.shims()[0]
    return rep


def line_files(short, keys=('queue', 'env', 'scheduler')):
    return {os.path.abspath(short[k].__file__): k for k in keys}
