"""vsim.policy -- choosers: who runs next.

A chooser is asked only when at least two threads are runnable.  All the
randomness of a chooser comes from the ``random.Random`` it was built with.
Whatever the chooser, the simulator records the decisions that differ from the
default policy ("stay on the current thread, else lowest id") as *pre-emptions*
``(current tid, its local step count, chosen tid)``; ``Preempt`` replays such a
list exactly.
"""


def default_choice(cands, cur_tid):
    if cur_tid in cands:
        return cur_tid
    return cands[0]


class Preempt:
    '''Default policy plus a list of pre-emptions (replay / minimisation).'''
    name = 'replay'

    def __init__(self, preempts):
        self.raw = [tuple(p) for p in preempts]
        self.table = {}
        for pre in self.raw:
            if len(pre) == 3:
                self.table[(pre[0], pre[1])] = pre[2]
        self.used = 0
        self.missed = 0

    def for_run(self, run, _scn=None):
        '''Histories of several simulated processes record pre-emptions as
        (run, tid, local step, target).'''
        return Preempt([pre[1:] for pre in self.raw
                        if len(pre) == 4 and pre[0] == run])

    def choose(self, sim, cands, cur_tid):
        me = sim.cur
        target = self.table.get((me.tid, me.nsteps))
        if target is not None:
            if target in cands:
                self.used += 1
                return target
            self.missed += 1
        return default_choice(cands, cur_tid)


class RandomWalk:
    '''Stay on the current thread with probability 1-p, else uniform.'''
    name = 'random-walk'

    def __init__(self, rng, p):
        self.rng = rng
        self.p = p

    def choose(self, sim, cands, cur_tid):
        rng = self.rng
        if cur_tid in cands and rng.random() >= self.p:
            return cur_tid
        return cands[rng.randrange(len(cands))]

    def describe(self):
        return {'policy': self.name, 'p': self.p}


class PCT:
    '''Probabilistic concurrency testing (Burckhardt et al.): random thread
    priorities, run the highest, d-1 priority drops at random steps.'''
    name = 'pct'

    def __init__(self, rng, depth, horizon):
        self.rng = rng
        self.depth = depth
        self.horizon = horizon
        self.prio = {}
        self.change = sorted(rng.randrange(1, max(2, horizon))
                             for _ in range(depth - 1))
        self.nchanged = 0

    def _prio(self, tid):
        pri = self.prio.get(tid)
        if pri is None:
            pri = self.depth + self.rng.random()
            self.prio[tid] = pri
        return pri

    def choose(self, sim, cands, cur_tid):
        while self.nchanged < len(self.change) and \
                sim.steps >= self.change[self.nchanged]:
            # lower the priority of the thread that is running now
            self.prio[sim.cur.tid] = self.depth - 1 - self.nchanged
            self.nchanged += 1
        best = cands[0]
        bestp = self._prio(best)
        for tid in cands[1:]:
            pri = self._prio(tid)
            if pri > bestp:
                best, bestp = tid, pri
        return best

    def describe(self):
        return {'policy': self.name, 'depth': self.depth,
                'horizon': self.horizon, 'change': self.change}


class Stall:
    '''Slow / stalled node: at a few trigger points the running thread is
    descheduled for a simulated duration (the others run; it resumes when the
    stall expires or nobody else can run).  Between stalls a base policy
    decides.

    triggers: list of dicts
      {'at': 'step',  'n': global step}
      {'at': 'tstep', 'tid': t, 'n': local step of thread t}
      {'at': 'mark',  'kind': k, 'k': kth mark of that kind, 'off': steps after}
    each with 'dur' (in clock ticks).
    '''
    name = 'stall'

    def __init__(self, rng, base, triggers):
        self.rng = rng
        self.base = base
        self.triggers = [dict(t) for t in triggers]
        self.stalled = {}      # tid -> clock at which the stall ends
        self.fired = 0
        self.mark_count = {}
        self.armed = []        # (tid, local step at which to stall, dur)

    def on_mark(self, sim, tid, kind):
        cnt = self.mark_count.get(kind, 0) + 1
        self.mark_count[kind] = cnt
        for trg in self.triggers:
            if trg['at'] == 'mark' and trg['kind'] == kind \
                    and trg['k'] == cnt and tid >= 0:
                nst = sim.threads[tid].nsteps
                self.armed.append((tid, nst + 1 + trg['off'], trg['dur']))

    def _fire(self, sim, tid, dur):
        self.stalled[tid] = sim.clock + dur * sim.tick
        self.fired += 1
        sim.hit('stall-fired')
        sim._record(tid, 'stall', None)

    def choose(self, sim, cands, cur_tid):
        me = sim.cur
        for trg in self.triggers:
            if trg.get('done'):
                continue
            if trg['at'] == 'step' and sim.steps >= trg['n']:
                trg['done'] = True
                self._fire(sim, me.tid, trg['dur'])
            elif trg['at'] == 'tstep' and me.tid == trg['tid'] \
                    and me.nsteps >= trg['n']:
                trg['done'] = True
                self._fire(sim, me.tid, trg['dur'])
        if self.armed:
            keep = []
            for tid, nst, dur in self.armed:
                if tid == me.tid and me.nsteps >= nst:
                    self._fire(sim, tid, dur)
                else:
                    keep.append((tid, nst, dur))
            self.armed = keep
        if self.stalled:
            clock = sim.clock
            for tid in [t for t, end in self.stalled.items() if end <= clock]:
                del self.stalled[tid]
            free = [t for t in cands if t not in self.stalled]
            if free:
                if len(free) == 1:
                    return free[0]
                return self.base.choose(sim, free, cur_tid)
        return self.base.choose(sim, cands, cur_tid)

    def describe(self):
        return {'policy': self.name, 'base': self.base.describe(),
                'triggers': [{k: v for k, v in t.items() if k != 'done'}
                             for t in self.triggers]}


def draw_policy(rng, *, nthreads, horizon, marks=('do-exit', 'do-enter'),
                max_off=12):
    '''Swarm-style draw of one scheduling policy for a run.'''
    kind = rng.random()
    if kind < 0.30:
        return RandomWalk(rng, rng.choice((0.02, 0.1, 0.3, 0.6)))
    if kind < 0.50:
        return PCT(rng, rng.choice((1, 2, 3)), horizon)
    base = RandomWalk(rng, rng.choice((0.02, 0.1, 0.3)))
    ntrig = rng.choice((1, 1, 2, 3))
    triggers = []
    for _ in range(ntrig):
        dur = rng.choice((20, 80, 300, 1500))   # in clock ticks
        sel = rng.random()
        if sel < 0.35:
            trg = {'at': 'step', 'n': rng.randrange(0, horizon)}
        elif sel < 0.55:
            trg = {'at': 'tstep', 'tid': rng.randrange(0, nthreads),
                   'n': rng.randrange(0, max(2, horizon // 2))}
        else:
            trg = {'at': 'mark', 'kind': rng.choice(marks),
                   'k': rng.randrange(1, 8), 'off': rng.randrange(0, max_off)}
        trg['dur'] = dur
        triggers.append(trg)
    return Stall(rng, base, triggers)
