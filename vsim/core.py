"""vsim.core -- deterministic baton-passing thread simulator.

Simulated threads are real OS threads of which exactly one runs at a time
(the one that holds the *baton*).  Every synchronisation operation of the
simulated ``threading`` / ``time`` / ``queue`` modules is a *yield point*: the
running thread records an event, advances the simulated clock, asks the
chooser (policy) who runs next and hands the baton over.  The decision is taken
by whoever holds the baton, so no real-time race exists anywhere and one
(scenario, chooser) pair is one exactly repeatable execution.

Nothing here draws randomness or reads a real clock.
"""
import sys
import math
import types
import importlib
import hashlib
import heapq
import _thread
import threading as _rt
import time as _rtime

__all__ = ['Sim', 'SimKilled', 'HarnessUnsupported', 'cur_sim', 'shims',
           'import_under_sim']


class SimKilled(BaseException):
    '''Raised inside parked threads when the run is over, to unwind them.'''


class SimCrash(BaseException):
    '''Simulated process crash (raised by fault seams; unwinds everything).'''


class HarnessUnsupported(Exception):
    '''The code under test left the modelled concurrency surface.'''


_CUR = None          # the Sim that is currently running in this process
_SERIAL = 0          # number of Sims created in this process (label epoch)


def cur_sim():
    return _CUR


def _default_choice(cands, cur_tid):
    '''Default policy: stay on the current thread, else the lowest tid.'''
    if cur_tid in cands:
        return cur_tid
    return cands[0]


class Sim:
    '''One simulated execution.'''

    def __init__(self, chooser, *, tick=1e-4, t0=1.0e6, max_steps=200000,
                 line_files=None, wall_limit=120.0, keep_trace=True):
        global _SERIAL
        _SERIAL += 1
        self.serial = _SERIAL
        self.chooser = chooser
        self.tick = tick
        self.clock = t0
        self.t0 = t0
        self.max_steps = max_steps
        self.line_files = line_files      # set of file names or None
        self.wall_limit = wall_limit
        self.threads = []
        self.cur = None
        self.steps = 0
        self.switches = 0
        self.killed = False
        self.outcome = None
        self.trace = [] if keep_trace else None
        self.hasher = hashlib.blake2b(digest_size=12)
        self.preempts = []        # non-default decisions (cur, nstep, target)
        self.ndecisions = 0       # decisions with >= 2 candidates
        self.max_runnable = 0
        self.diverged = False
        self.nlabels = 0
        self.nnames = 0
        self.marks = []           # (step, tid, kind, data) task-level events
        self.sleepers = []        # heap of (deadline, seq, thread)
        self._sseq = 0
        self.done_evt = _rt.Event()
        self.main_result = None
        self.main_exc = None
        self.unsupported = None
        self.probe_hits = {}      # reach probes: name -> count
        self.zombies = 0
        # fault: the k-th Thread.start() of the run (1-based) fails the way
        # CPython reports an exhausted thread limit
        self.fail_thread_start = None
        self.nstarts = 0
        # None: time.time() is the simulated clock itself (strictly
        # increasing); a number: the clock is read in ticks of that size
        self.clock_quantum = None
        # fault: KeyboardInterrupt in the main thread once it has gone
        # through that many yield points
        self.interrupt_main_at = None
        # ... and only while a function of that name is on its stack (None:
        # anywhere).  A signal can arrive between any two bytecodes, also in
        # the middle of a clean-up; no finite amount of try/finally makes a
        # shutdown immune to that, and the checks do not ask for it.
        self.interrupt_main_in = None

    # ------------------------------------------------------------------ util
    def label(self, obj, prefix):
        lab = getattr(obj, '_vlab', None)
        if lab is None or lab[0] != self.serial:
            self.nlabels += 1
            lab = (self.serial, '%s%d' % (prefix, self.nlabels))
            try:
                obj._vlab = lab
            except AttributeError:
                pass
        return lab[1]

    def hit(self, name, n=1):
        self.probe_hits[name] = self.probe_hits.get(name, 0) + n

    def _record(self, tid, op, lab):
        ev = (tid, op, lab)
        if self.trace is not None:
            self.trace.append(ev)
        self.hasher.update(repr(ev).encode())

    def digest(self):
        return self.hasher.hexdigest()

    def mark(self, kind, data=None):
        '''Task-level event; not a yield point.'''
        tid = self.cur.tid if self.cur is not None else -1
        self.marks.append((self.steps, tid, kind, data))
        self._record(tid, 'mark:' + kind, None if data is None else repr(data))
        ch = self.chooser
        if hasattr(ch, 'on_mark'):
            ch.on_mark(self, tid, kind)

    # ----------------------------------------------------------- scheduling
    def _check_baton(self):
        if self.killed:
            raise SimKilled()
        me = self.cur
        if me is None or me._ident != _thread.get_ident():
            if _thread.get_ident() in _ZOMBIES:
                # a thread of an EARLIER simulation that could not be unwound
                # when that simulation ended (it was blocked in a real system
                # call, e.g. waiting for a real child process) and wakes up
                # now: it dies here, it is nobody's business any more
                raise SimKilled()
            self.unsupported = ('sim primitive used by a thread that does not '
                                'hold the baton')
            self._finish(('unsupported', self.unsupported))
            raise HarnessUnsupported(self.unsupported)

    def _wake_sleepers(self):
        sl = self.sleepers
        while sl and sl[0][0] <= self.clock:
            _dl, _seq, thr = heapq.heappop(sl)
            if thr.state == 'B' and thr.deadline is not None \
                    and thr.deadline == _dl:
                thr.state = 'R'
                thr.timed_out = True
                thr.deadline = None

    def _add_sleeper(self, thr, deadline):
        thr.deadline = deadline
        self._sseq += 1
        heapq.heappush(self.sleepers, (deadline, self._sseq, thr))

    def _runnable(self):
        return [t.tid for t in self.threads if t.state == 'R']

    def _choose(self, cands, cur_tid):
        n = len(cands)
        if n > self.max_runnable:
            self.max_runnable = n
        if n == 1:
            return cands[0]
        self.ndecisions += 1
        choice = self.chooser.choose(self, cands, cur_tid)
        if choice not in cands:
            self.diverged = True
            choice = _default_choice(cands, cur_tid)
        if choice != _default_choice(cands, cur_tid):
            me = self.cur
            self.preempts.append((me.tid, me.nsteps, choice))
        return choice

    def _switch_to(self, nxt):
        me = self.cur
        if nxt is me:
            return
        self.switches += 1
        self.cur = nxt
        nxt.wake.release()
        me.wake.acquire()
        if self.killed:
            raise SimKilled()

    def _step(self, op, lab):
        self._check_baton()
        me = self.cur
        self.steps += 1
        me.nsteps += 1
        self.clock += self.tick
        self._record(me.tid, op, lab)
        if self.steps > self.max_steps:
            self._finish(('steplimit', None))
            raise SimKilled()
        if self.sleepers:
            self._wake_sleepers()

    def yield_point(self, op, lab=None):
        '''The current thread stays runnable; somebody is chosen to go on.'''
        self._step(op, lab)
        me = self.cur
        cands = self._runnable()
        nxt = self._choose(cands, me.tid)
        if nxt != me.tid:
            self._switch_to(self.threads[nxt])
        if me.tid == 0 and self.interrupt_main_at is not None and \
                me.nsteps >= self.interrupt_main_at and \
                self._main_is_inside(self.interrupt_main_in):
            # fault: the user presses Ctrl-C (delivered to the main thread,
            # here at a synchronisation point)
            self.interrupt_main_at = None
            self.hit('fault-fired:keyboard-interrupt-in-the-main-thread')
            self._record(0, 'interrupted', None)
            raise KeyboardInterrupt()

    @staticmethod
    def _main_is_inside(names):
        if not names:
            return True
        frame = sys._getframe(2)
        while frame is not None:
            if frame.f_code.co_name in names:
                return True
            frame = frame.f_back
        return False

    def block(self, op, lab=None):
        '''The current thread is blocked (its state is already 'B').'''
        self._step('block:' + op, lab)
        me = self.cur
        if me.state == 'R':      # woken by _wake_sleepers in _step
            cands = self._runnable()
            nxt = self._choose(cands, me.tid)
            if nxt != me.tid:
                self._switch_to(self.threads[nxt])
            return
        nxt = self._next_after_block()
        if nxt is None:
            self._finish(('deadlock', self._blocked_info()))
            me.wake.acquire()
            raise SimKilled()
        if nxt is me:
            return
        self._switch_to(nxt)

    def _next_after_block(self):
        cands = self._runnable()
        if not cands:
            # nothing runnable: jump the clock to the earliest deadline
            sl = self.sleepers
            while sl:
                dl, _seq, thr = sl[0]
                if thr.state == 'B' and thr.deadline == dl:
                    break
                heapq.heappop(sl)
            if not sl:
                return None
            self.clock = max(self.clock, sl[0][0])
            self._wake_sleepers()
            cands = self._runnable()
            if not cands:
                return None
        return self.threads[self._choose(cands, self.cur.tid)]

    def _blocked_info(self):
        return [(t.tid, t.name, t.state, t.waiting_on)
                for t in self.threads if t.state != 'D']

    def thread_exit(self):
        me = self.cur
        me.state = 'D'
        self.steps += 1
        me.nsteps += 1
        self.clock += self.tick
        self._record(me.tid, 'exit', None)
        for j in me.joiners:
            if j.state == 'B':
                j.state = 'R'
        me.joiners = []
        if self.sleepers:
            self._wake_sleepers()
        nxt = self._next_after_block()
        if nxt is None:
            alive = [t for t in self.threads if t.state != 'D']
            if alive:
                self._finish(('deadlock', self._blocked_info()))
            else:
                self._finish(('ok', None))
            return
        self.cur = nxt
        self.switches += 1
        nxt.wake.release()

    def _finish(self, outcome):
        if self.outcome is None:
            self.outcome = outcome
        self.done_evt.set()

    # ---------------------------------------------------------------- clock
    def now(self):
        return self.clock

    def sleep(self, dur, op='sleep'):
        self._check_baton()
        me = self.cur
        if dur <= 0:
            self.yield_point(op)
            return
        me.state = 'B'
        me.waiting_on = (op, None)
        me.timed_out = False
        self._add_sleeper(me, self.clock + dur)
        self.block(op)
        me.deadline = None

    # ------------------------------------------------------------------ run
    def run(self, main, *args):
        '''Run ``main(*args)`` as simulated thread 0, to the end.'''
        global _CUR
        if _CUR is not None:
            raise RuntimeError('nested Sim.run')
        _CUR = self
        try:
            def _main():
                try:
                    self.main_result = main(*args)
                except SimKilled:
                    raise
                except SimCrash as exc:
                    self.main_exc = exc
                except Exception as exc:  # noqa
                    self.main_exc = exc
                except KeyboardInterrupt as exc:
                    self.main_exc = exc
                self.mark('main-returned')
            t0 = SimThread(target=_main, name='MainThread')
            t0._register(self)
            t0.state = 'R'
            self.cur = t0
            t0._real_start()
            t0.wake.release()
            # the wall-clock guard: a thread that keeps the baton without
            # ever reaching a scheduling point (an endless loop, a real
            # system call that never returns).  A run that is merely slow
            # (a loaded machine) still takes steps and is given more time;
            # the step limit bounds it.
            waited, half = 0.0, self.wall_limit / 2.0
            while not self.done_evt.wait(half):
                waited += half
                before = self.steps
                if self.done_evt.wait(half):
                    break
                waited += half
                if self.steps == before or \
                        waited >= 8 * self.wall_limit:
                    self.outcome = ('wall-timeout', self._blocked_info())
                    break
            self.killed = True
            for thr in self.threads:
                if thr.state != 'D':
                    try:
                        thr.wake.release()
                    except RuntimeError:
                        pass
            for thr in self.threads:
                if thr._started_real:
                    thr._done_real.acquire(timeout=5)
                    if not thr._finished_real:
                        self.zombies += 1
                        if thr._ident is not None:
                            _ZOMBIES.add(thr._ident)
        finally:
            _CUR = None
        return self.outcome


_ZOMBIES = set()


class NullSim:
    '''Bookkeeping object for simulated executions that have no threads
    (crash-point / fault-sequence histories): same reporting surface as
    ``Sim``.'''

    def __init__(self):
        self.hasher = hashlib.blake2b(digest_size=12)
        self.steps = 0
        self.switches = 0
        self.preempts = []
        self.ndecisions = 0
        self.zombies = 0
        self.probe_hits = {}
        self.unsupported = None
        self.outcome = ('ok', None)
        self.max_runnable = 1
        self.clock = 0.0
        self.t0 = 0.0
        self.nontrivial = False

    def event(self, *ev):
        self.steps += 1
        self.hasher.update(repr(ev).encode())

    def digest(self):
        return self.hasher.hexdigest()

    def hit(self, name, n=1):
        self.probe_hits[name] = self.probe_hits.get(name, 0) + n


class SimThread:
    '''Stand-in for ``threading.Thread``.'''

    def __init__(self, group=None, target=None, name=None, args=(),
                 kwargs=None, *, daemon=None):
        self._target = target
        self._args = args
        self._kwargs = kwargs or {}
        sim = _CUR
        if name is None:
            if sim is not None:
                sim.nnames += 1
                name = 'Thread-%d' % sim.nnames
            else:
                name = 'Thread-x'
        self._name = name
        self._daemon = bool(daemon)
        self.state = 'N'
        self.waiting_on = None
        self.deadline = None
        self.timed_out = False
        self.joiners = []
        self.wake = _thread.allocate_lock()
        self.wake.acquire()
        self._done_real = _thread.allocate_lock()
        self._done_real.acquire()
        self._started_real = False
        self._finished_real = False
        self.tid = None
        self.nsteps = 0
        self.exc = None
        self._ident = None
        self.sim = None

    # threading.Thread API -------------------------------------------------
    @property
    def name(self):
        return self._name

    @name.setter
    def name(self, value):
        self._name = str(value)

    @property
    def daemon(self):
        return self._daemon

    @daemon.setter
    def daemon(self, value):
        self._daemon = bool(value)

    def getName(self):   # noqa
        return self._name

    def setName(self, name):   # noqa
        self._name = name

    def isDaemon(self):  # noqa
        return self._daemon

    def setDaemon(self, value):  # noqa
        self._daemon = bool(value)

    @property
    def ident(self):
        return None if self.tid is None else self.tid + 1

    native_id = ident

    def is_alive(self):
        return self.state in ('R', 'B')

    def _register(self, sim):
        self.sim = sim
        self.tid = len(sim.threads)
        sim.threads.append(self)

    def _real_start(self):
        self._started_real = True
        _thread.start_new_thread(self._bootstrap, ())

    def _bootstrap(self):
        try:
            self.wake.acquire()
            sim = self.sim
            if sim.killed:
                return
            self._ident = _thread.get_ident()
            _ZOMBIES.discard(self._ident)    # (an identifier may be re-used)
            if sim.line_files:
                sys.settrace(_make_tracer(sim))
            try:
                self.run()
            except SimKilled:
                return
            except HarnessUnsupported:
                return
            except BaseException as exc:  # noqa  (threading swallows too)
                self.exc = exc
                sim._record(self.tid, 'uncaught', type(exc).__name__)
            finally:
                sys.settrace(None)
            if sim.killed:
                return
            sim.thread_exit()
        finally:
            self._finished_real = True
            self._done_real.release()

    def run(self):
        if self._target is not None:
            self._target(*self._args, **self._kwargs)

    def start(self):
        sim = _CUR
        if sim is None:
            raise HarnessUnsupported('Thread.start() outside a simulation')
        if self.state != 'N':
            raise RuntimeError('threads can only be started once')
        sim._check_baton()
        sim.nstarts += 1
        if sim.fail_thread_start == sim.nstarts:
            sim.hit('fault-fired:thread-start-fails')
            sim._record(sim.cur.tid, 'start-failed', None)
            raise RuntimeError("can't start new thread")
        self._register(sim)
        self.state = 'R'
        self._real_start()
        sim.yield_point('start', self.tid)

    def join(self, timeout=None):
        sim = _CUR
        if sim is None:
            return
        if self.state == 'N':
            raise RuntimeError('cannot join thread before it is started')
        sim.yield_point('join', self.tid)
        me = sim.cur
        if me is self:
            raise RuntimeError('cannot join current thread')
        if timeout is not None:
            deadline = sim.clock + max(0.0, timeout)
        while self.state != 'D':
            me.state = 'B'
            me.waiting_on = ('join', self.tid)
            me.timed_out = False
            self.joiners.append(me)
            if timeout is not None:
                sim._add_sleeper(me, deadline)
            sim.block('join', self.tid)
            me.deadline = None
            if me.timed_out:
                if me in self.joiners:
                    self.joiners.remove(me)
                return


def _make_tracer(sim):
    files = sim.line_files

    def local(frame, event, _arg):
        if event == 'line' and not sim.killed:
            sim.yield_point('line', '%s:%d' % (
                files[frame.f_code.co_filename], frame.f_lineno))
        return local

    def tracer(frame, event, _arg):
        if event == 'call' and frame.f_code.co_filename in files:
            return local
        return None
    return tracer


# ---------------------------------------------------------------------------
# locks

def _wake_all(waiters):
    for thr in waiters:
        if thr.state == 'B':
            thr.state = 'R'
            thr.deadline = None


class SimLock:
    '''Non-reentrant lock; not fair (all waiters contend on release).'''
    _kind = 'L'

    def __init__(self):
        self.owner = None
        self.waiters = []

    def acquire(self, blocking=True, timeout=-1):
        sim = _CUR
        if sim is None:
            if self.owner is not None:
                if not blocking:
                    return False
                raise HarnessUnsupported('lock contention outside simulation')
            self.owner = 'nosim'
            return True
        lab = sim.label(self, self._kind)
        sim.yield_point('acq', lab)
        me = sim.cur
        deadline = None
        if blocking and timeout is not None and timeout >= 0:
            deadline = sim.clock + timeout
        while self.owner is not None:
            if not blocking:
                return False
            if deadline is not None and sim.clock >= deadline:
                return False
            me.state = 'B'
            me.waiting_on = ('lock', lab)
            me.timed_out = False
            self.waiters.append(me)
            if deadline is not None:
                sim._add_sleeper(me, deadline)
            try:
                sim.block('lock', lab)
            finally:
                if me in self.waiters:
                    self.waiters.remove(me)
            me.deadline = None
        self.owner = me
        return True

    def release(self):
        sim = _CUR
        if sim is None or sim.killed:
            self.owner = None
            return
        if self.owner is None:
            raise RuntimeError('release unlocked lock')
        self.owner = None
        ws, self.waiters = self.waiters, []
        _wake_all(ws)
        sim.yield_point('rel', sim.label(self, self._kind))

    def locked(self):
        return self.owner is not None

    def __enter__(self):
        return self.acquire()

    def __exit__(self, *_a):
        self.release()

    # Condition support
    def _is_owned(self):
        return self.owner is not None

    def _release_save_noyield(self):
        self.owner = None
        ws, self.waiters = self.waiters, []
        _wake_all(ws)
        return None

    def _acquire_restore(self, _saved):
        self.acquire()


class SimRLock:
    _kind = 'R'

    def __init__(self):
        self.owner = None
        self.count = 0
        self.waiters = []

    def acquire(self, blocking=True, timeout=-1):
        sim = _CUR
        if sim is None:
            self.owner = 'nosim'
            self.count += 1
            return True
        me = sim.cur
        if self.owner is me:
            sim._check_baton()
            self.count += 1
            return True
        if self.owner == 'nosim':
            # lock left held by code that ran outside a simulation
            raise HarnessUnsupported('RLock held across simulation boundary')
        lab = sim.label(self, self._kind)
        sim.yield_point('racq', lab)
        deadline = None
        if blocking and timeout is not None and timeout >= 0:
            deadline = sim.clock + timeout
        while self.owner is not None:
            if not blocking:
                return False
            if deadline is not None and sim.clock >= deadline:
                return False
            me.state = 'B'
            me.waiting_on = ('rlock', lab)
            me.timed_out = False
            self.waiters.append(me)
            if deadline is not None:
                sim._add_sleeper(me, deadline)
            try:
                sim.block('rlock', lab)
            finally:
                if me in self.waiters:
                    self.waiters.remove(me)
            me.deadline = None
        self.owner = me
        self.count = 1
        return True

    def release(self):
        sim = _CUR
        if sim is None:
            self.count -= 1
            if self.count <= 0:
                self.count = 0
                self.owner = None
            return
        if sim.killed:
            return
        if self.owner is not sim.cur:
            raise RuntimeError('cannot release un-acquired lock')
        self.count -= 1
        if self.count == 0:
            self.owner = None
            ws, self.waiters = self.waiters, []
            _wake_all(ws)
            sim.yield_point('rrel', sim.label(self, self._kind))

    def __enter__(self):
        return self.acquire()

    def __exit__(self, *_a):
        self.release()

    def _is_owned(self):
        sim = _CUR
        if sim is None:
            return self.owner == 'nosim'
        return self.owner is sim.cur

    def _release_save_noyield(self):
        cnt = self.count
        self.count = 0
        self.owner = None
        ws, self.waiters = self.waiters, []
        _wake_all(ws)
        return cnt

    def _acquire_restore(self, cnt):
        self.acquire()
        self.count = cnt

    def _recursion_count(self):
        return self.count if self._is_owned() else 0


class SimCondition:
    def __init__(self, lock=None):
        if lock is None:
            lock = SimRLock()
        self._lock = lock
        self.acquire = lock.acquire
        self.release = lock.release
        self.cwaiters = []

    def __enter__(self):
        return self._lock.__enter__()

    def __exit__(self, *a):
        return self._lock.__exit__(*a)

    def _is_owned(self):
        return self._lock._is_owned()

    def wait(self, timeout=None):
        sim = _CUR
        if sim is None:
            raise HarnessUnsupported('Condition.wait outside a simulation')
        sim._check_baton()
        if not self._lock._is_owned():
            raise RuntimeError('cannot wait on un-acquired lock')
        me = sim.cur
        lab = sim.label(self, 'C')
        self.cwaiters.append(me)
        me.state = 'B'
        me.waiting_on = ('cond', lab)
        me.timed_out = False
        if timeout is not None:
            sim._add_sleeper(me, sim.clock + max(0.0, timeout))
        saved = self._lock._release_save_noyield()
        try:
            sim.block('cwait', lab)
        finally:
            me.deadline = None
            if me in self.cwaiters:
                self.cwaiters.remove(me)
        timed_out = me.timed_out
        self._lock._acquire_restore(saved)
        return not timed_out

    def wait_for(self, predicate, timeout=None):
        sim = _CUR
        endtime = None
        result = predicate()
        while not result:
            waittime = None
            if timeout is not None:
                if endtime is None:
                    endtime = sim.clock + timeout
                waittime = endtime - sim.clock
                if waittime <= 0:
                    break
            self.wait(waittime)
            result = predicate()
        return result

    def notify(self, n=1):
        sim = _CUR
        if not self._lock._is_owned():
            raise RuntimeError('cannot notify on un-acquired lock')
        if sim is None:
            return
        if sim.killed:
            return
        woken, self.cwaiters = self.cwaiters[:n], self.cwaiters[n:]
        for thr in woken:
            if thr.state == 'B':
                thr.state = 'R'
                thr.timed_out = False
                thr.deadline = None
        sim.yield_point('notify', sim.label(self, 'C'))

    def notify_all(self):
        self.notify(len(self.cwaiters))

    notifyAll = notify_all


class SimEvent:
    def __init__(self):
        self._cond = SimCondition(SimLock())
        self._flag = False

    def is_set(self):
        return self._flag

    isSet = is_set

    def set(self):
        with self._cond:
            self._flag = True
            self._cond.notify_all()

    def clear(self):
        with self._cond:
            self._flag = False

    def wait(self, timeout=None):
        with self._cond:
            signaled = self._flag
            if not signaled:
                signaled = self._cond.wait(timeout)
                signaled = self._flag
            return signaled


class SimSemaphore:
    def __init__(self, value=1):
        if value < 0:
            raise ValueError('semaphore initial value must be >= 0')
        self._cond = SimCondition(SimLock())
        self._value = value

    def acquire(self, blocking=True, timeout=None):
        if not blocking and timeout is not None:
            raise ValueError("can't specify timeout for non-blocking acquire")
        sim = _CUR
        rc = False
        endtime = None
        with self._cond:
            while self._value == 0:
                if not blocking:
                    break
                if timeout is not None:
                    if endtime is None:
                        endtime = sim.clock + timeout
                    else:
                        timeout = endtime - sim.clock
                        if timeout <= 0:
                            break
                self._cond.wait(timeout)
            else:
                self._value -= 1
                rc = True
        return rc

    __enter__ = acquire

    def release(self, n=1):
        with self._cond:
            self._value += n
            self._cond.notify(n)

    def __exit__(self, *_a):
        self.release()


class SimBoundedSemaphore(SimSemaphore):
    def __init__(self, value=1):
        super().__init__(value)
        self._initial_value = value

    def release(self, n=1):
        with self._cond:
            if self._value + n > self._initial_value:
                raise ValueError('Semaphore released too many times')
            self._value += n
            self._cond.notify(n)


class SimTimer(SimThread):
    def __init__(self, interval, function, args=None, kwargs=None):
        super().__init__()
        self.interval = interval
        self.function = function
        self.args = args if args is not None else []
        self.kwargs = kwargs if kwargs is not None else {}
        self.finished = SimEvent()

    def cancel(self):
        self.finished.set()

    def run(self):
        self.finished.wait(self.interval)
        if not self.finished.is_set():
            self.function(*self.args, **self.kwargs)
        self.finished.set()


class SimLocal:
    def __init__(self):
        object.__setattr__(self, '_vd', {})

    def _dict(self):
        sim = _CUR
        key = (sim.serial, sim.cur.tid) if sim is not None else None
        return object.__getattribute__(self, '_vd').setdefault(key, {})

    def __getattr__(self, name):
        try:
            return self._dict()[name]
        except KeyError:
            raise AttributeError(name) from None

    def __setattr__(self, name, value):
        self._dict()[name] = value

    def __delattr__(self, name):
        try:
            del self._dict()[name]
        except KeyError:
            raise AttributeError(name) from None


# ---------------------------------------------------------------------------
# shim modules

_SHIMS = None


def shims():
    '''Build (once) the simulated ``threading``, ``time`` and ``queue``
    modules.  ``queue`` is the standard library source re-executed over the
    simulated primitives.'''
    global _SHIMS
    if _SHIMS is not None:
        return _SHIMS
    th = types.ModuleType('threading')
    th.__vsim__ = True
    th.Thread = SimThread
    th.Lock = SimLock
    th.RLock = SimRLock
    th.Condition = SimCondition
    th.Event = SimEvent
    th.Semaphore = SimSemaphore
    th.BoundedSemaphore = SimBoundedSemaphore
    th.Timer = SimTimer
    th.local = SimLocal
    th.TIMEOUT_MAX = _rt.TIMEOUT_MAX
    th.ThreadError = RuntimeError

    def current_thread():
        sim = _CUR
        if sim is None:
            return _rt.current_thread()
        return sim.cur
    th.current_thread = current_thread
    th.currentThread = current_thread

    def main_thread():
        sim = _CUR
        if sim is None:
            return _rt.main_thread()
        return sim.threads[0]
    th.main_thread = main_thread

    def get_ident():
        sim = _CUR
        if sim is None:
            return _thread.get_ident()
        return sim.cur.tid + 1
    th.get_ident = get_ident
    th.get_native_id = get_ident

    def enumerate_():
        sim = _CUR
        if sim is None:
            return _rt.enumerate()
        return [t for t in sim.threads if t.is_alive()]
    th.enumerate = enumerate_
    th.active_count = lambda: len(enumerate_())
    th.activeCount = th.active_count
    th.settrace = lambda f: None
    th.setprofile = lambda f: None
    th.excepthook = lambda *a, **k: None

    def _unsupported(name):
        def _raise(*_a, **_k):
            raise HarnessUnsupported('threading.%s is not modelled' % name)
        return _raise
    th.Barrier = _unsupported('Barrier')

    tm = types.ModuleType('time')
    tm.__vsim__ = True
    for attr in dir(_rtime):
        if not attr.startswith('__'):
            setattr(tm, attr, getattr(_rtime, attr))

    def time_():
        sim = _CUR
        if sim is None:
            return _rtime.time()
        sim.yield_point('time')
        if sim.clock_quantum:
            # a coarse wall clock (e.g. 15.6 ms ticks): time.time() is
            # non-decreasing and two readings close together are equal
            return math.floor(sim.clock / sim.clock_quantum) * \
                sim.clock_quantum
        return sim.clock
    tm.time = time_

    def time_ns():
        return int(time_() * 1e9)
    tm.time_ns = time_ns

    def monotonic():
        sim = _CUR
        if sim is None:
            return _rtime.monotonic()
        return sim.clock - sim.t0
    tm.monotonic = monotonic
    tm.perf_counter = monotonic
    tm.process_time = monotonic
    tm.thread_time = monotonic
    tm.monotonic_ns = lambda: int(monotonic() * 1e9)
    tm.perf_counter_ns = tm.monotonic_ns

    def sleep(dur):
        sim = _CUR
        if sim is None:
            raise HarnessUnsupported('time.sleep outside a simulation')
        sim.sleep(dur)
    tm.sleep = sleep

    import queue as _rq
    qm = types.ModuleType('queue')
    qm.__vsim__ = True
    qm.__file__ = _rq.__file__
    with open(_rq.__file__, encoding='utf-8') as src:
        code = compile(src.read(), _rq.__file__, 'exec')
    saved = {k: sys.modules[k] for k in ('threading', 'time')}
    sys.modules['threading'] = th
    sys.modules['time'] = tm
    try:
        exec(code, qm.__dict__)   # pylint: disable=exec-used
    finally:
        sys.modules.update(saved)
    qm.SimpleQueue = qm._PySimpleQueue
    _SHIMS = (th, tm, qm)
    return _SHIMS


def import_under_sim(names, purge_prefix=None):
    '''(Re-)import ``names`` with ``threading``/``time``/``queue`` replaced by
    the shims.  Every module whose name starts with ``purge_prefix`` is dropped
    from ``sys.modules`` first so that it binds to the re-imported ones.'''
    th, tm, qm = shims()
    saved = {k: sys.modules.get(k) for k in ('threading', 'time', 'queue')}
    if purge_prefix:
        for name in list(sys.modules):
            if name == purge_prefix or name.startswith(purge_prefix + '.'):
                del sys.modules[name]
    for name in names:
        sys.modules.pop(name, None)
    sys.modules['threading'] = th
    sys.modules['time'] = tm
    sys.modules['queue'] = qm
    try:
        return [importlib.import_module(n) for n in names]
    finally:
        for key, mod in saved.items():
            if mod is None:
                sys.modules.pop(key, None)
            else:
                sys.modules[key] = mod
