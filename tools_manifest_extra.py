def extend(add, NA, SIMNOTE):
    for prop in ('C04', 'C11', 'C19'):
        NA[prop] = 'TEMPORARY: simulation check designed (DESIGN.md section 4) but not built yet; will be claimed once the check exists.'
    add('C14', 'fault_enumeration',
        'Seeded histories of write_env / crash at byte k / short writes with EIO or ENOSPC / failing opens / direct damage / restart / read_env judged against a reference model of the per-task files, '
        'plus an enumeration of EVERY proper prefix (every crash point of the sequential writer) of each sampled environment file, read back through Env.from_file and read_env. '
        'The truncation dimension is swept completely for the sampled files; payloads and fault sequences are sampled.',
        'Trusted: the crash model (a killed sequential writer leaves a byte prefix, an empty or a NUL-filled file), the fault seam around open() in vsim/faultfs.py, pickle. Bit flips that still unpickle are out of scope (no checksum in the format, none claimed).',
        'deterministic simulation of crash points and I/O faults on the environment files + exhaustive truncation enumeration', 'DESIGN.md 4 C14', 'vsim-faultfs')
