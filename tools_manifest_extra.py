def extend(add, NA, SIMNOTE):
    for prop in ('C04', 'C11', 'C14', 'C19'):
        NA[prop] = 'TEMPORARY: simulation check designed (DESIGN.md section 4) but not built yet; will be claimed once the check exists.'
