def extend(add, NA, SIMNOTE):
    add('C14', 'fault_enumeration',
        'Seeded histories of write_env / crash at byte k / short writes with EIO or ENOSPC / failing opens / direct damage / restart / read_env judged against a reference model of the per-task files (what is on the disk, and what the last completed write said), files overwritten with junk that is not a pickled environment, '
        'plus an enumeration of EVERY proper prefix (every crash point of the sequential writer) of each sampled environment file, read back through Env.from_file and read_env. '
        'The truncation dimension is swept completely for the sampled files; payloads and fault sequences are sampled.',
        'Trusted: the crash model (a killed sequential writer leaves a byte prefix, an empty or a NUL-filled file), the fault seam around open() in vsim/faultfs.py, pickle. Flipped bytes inside a valid pickle are not injected: they can unpickle to a different entry (no checksum in the format, none claimed) and a corrupted numpy pickle was seen to crash the interpreter, which no reader can turn into "not done".',
        'deterministic simulation of crash points and I/O faults on the environment files + exhaustive truncation enumeration', 'DESIGN.md 4 C14', 'vsim-faultfs')
    add('C11', 'fault_enumeration',
        'Crash points of the listing writer are enumerated: quick = every byte offset inside the end-flag lines, a sample of the other lines the scanner interprets and 300 random offsets per listing; '
        'thorough = EVERY byte offset of every example listing, of synthetic 3-edition listings and of hand-made listings with NU, (Z,A) and vov spectra. Each prefix is opened and every edition found is parsed and compared (numpy-aware deep equality) with the same edition of the complete listing parsed in a fresh process; '
        'seeded histories of 8-30 (listing, offset) pairs over the whole corpus in one reader process cover "whatever was parsed earlier in the same process"; in a third of the histories every listing is parsed in a reader thread of its own.',
        'Trusted: the crash model (byte prefix), the deep comparison in vsim/deepeq.py, the narrow relaxations listed in the evidence assumptions (run_data describes the whole file; a time printed after the end flag may be missing but not different). The corpus is the shipped examples plus synthetic multi-edition listings; other listing layouts are not covered.',
        'deterministic simulation of writer crash points (byte-prefix enumeration) with fresh-process reference parses', 'DESIGN.md 4 C11', 'vsim-faultfs')
    add('C19', 'exploration',
        'Seeded simulated runs of jobs of RunTasks (from_cli, from_clis, RunTaskFactory.make), CheckoutTasks and BuildTasks on the real queue backend with the subprocess seam bound to a scripted process table '
        '(exit statuses including signals, text on both streams written to the file descriptors, durations, start-up failures, valid and invalid task names, output and log roots that do not exist yet, stale capture files of an earlier run), a start-up family that stalls one worker inside the directory-creation code while the others run through it, 5% of the runs on the real subprocess.call with /bin/sh; '
        'statuses, commands actually started, return codes, captured files and per-task directories are compared with a reference model under many interleavings of 1-4 workers.',
        SIMNOTE + ' The process stub writes with os.write on the descriptors it is given, like a child process.',
        'deterministic simulation: scripted process table behind the subprocess seam + thread simulator + reference model', 'DESIGN.md 4 C19', 'vsim-threads')
    add('C04', 'exploration',
        'Seeded histories of 2-5 runs of one job over one scratch output tree: every run is a simulated process (fresh tasks, graphs, Env; only the per-task environment files survive) scheduled by the real queue backend under a seeded policy, '
        'through RunCommand.execute on a job file or read_env/schedule/write_env; between runs persisted environments are lost, tasks flip between success and failure, tasks are added, worker counts change, and a run may crash while writing the environments. '
        'After every run: no DONE task is older than a DONE dependency (ground truth from execution ids and recorded clocks) or sits on a FAILED/SKIPPED hard dependency; up-to-date DONE tasks are neither executed nor modified; what a completed run persisted is what the next run reads.',
        SIMNOTE + ' The clock is strictly increasing across the runs of a history (no backward jumps).',
        'deterministic simulation of run histories: thread simulator + restarts with durable state only + continuing simulated clock', 'DESIGN.md 4 C04', 'vsim-threads')
