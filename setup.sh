#!/bin/sh
# Offline setup: nothing to build (pure Python, standard library + the repo's
# own venv).  Verifies that the interpreter and the repository are usable.
set -e
cd "$(dirname "$0")"
PY=${VERIF_PYTHON:-/venv/bin/python}
"$PY" -B -c "import sys; sys.path.insert(0, '.'); from vsim import core, policy, driver, minimise; print('vsim ok', sys.version.split()[0])"
mkdir -p evidence replays
