#!/bin/sh
# usage: tools_try_patch.sh <patch file | -> <check id> [check args...]
# Applies a patch to a scratch worktree of /repo (outside /repo and /verif),
# runs the check against it through VERIF_REPO, removes the worktree.
patch="$1"; shift
dir=$(mktemp -d /tmp/vj-scratch-XXXXXX)
rmdir "$dir"
git -C /repo worktree add -q --detach "$dir" HEAD || exit 2
trap 'git -C /repo worktree remove --force "$dir" >/dev/null 2>&1; rm -rf "$dir"' EXIT
if [ "$patch" != "-" ]; then
  git -C "$dir" apply "$patch" || { echo "patch does not apply"; exit 2; }
fi
if [ -n "$EDIT_CMD" ]; then (cd "$dir" && sh -c "$EDIT_CMD") || exit 2; fi
cd /verif && VERIF_REPO="$dir" ./check "$@"
