#!/usr/bin/env python3
"""Evaluate seeded changes against the checks.

  tools_seeded.py eval <dir> [--prop ID] [--tier quick] [--seed N] [--no-demo]
      <dir> holds patch.diff, a demonstration (demo.py) and optionally
      meta.json ({"property": "C04", ...}).  A scratch worktree of /repo's HEAD
      is created outside /repo and /verif; the demonstration must pass on it,
      the patch must apply, the demonstration must then fail, and the check of
      the property is run against the patched worktree through VERIF_REPO
      (evidence files are not rewritten).  The worktree is removed afterwards.
  tools_seeded.py all [--tier quick]
      every directory under /verif/seeded; writes /verif/seeded/RESULTS.json
      and prints the table used in DESIGN.md.
"""
import os
import sys
import json
import time
import shutil
import tempfile
import subprocess

VERIF = os.path.dirname(os.path.abspath(__file__))
PY = os.environ.get('VERIF_PYTHON', '/venv/bin/python')


def sh(cmd, cwd=None, env=None, timeout=3600):
    proc = subprocess.run(cmd, cwd=cwd, env=env, capture_output=True,
                          text=True, timeout=timeout)
    return proc.returncode, proc.stdout + proc.stderr


def evaluate(path, prop=None, tier='quick', seed=None, demo=True,
             checks=None):
    path = os.path.abspath(path)
    meta = {}
    mpath = os.path.join(path, 'meta.json')
    if os.path.exists(mpath):
        with open(mpath) as fil:
            meta = json.load(fil)
    prop = prop or meta.get('property')
    out = {'id': os.path.basename(path), 'property': prop}
    wdir = tempfile.mkdtemp(prefix='vj-seed-', dir='/tmp')
    os.rmdir(wdir)
    code, txt = sh(['git', '-C', '/repo', 'worktree', 'add', '-q', '--detach',
                    wdir, 'HEAD'])
    if code:
        out['error'] = 'worktree: ' + txt[-300:]
        return out
    try:
        demo_file = os.path.join(path, meta.get('demo', 'demo.py'))
        envd = dict(os.environ, PYTHONDONTWRITEBYTECODE='1')
        if demo and os.path.exists(demo_file):
            shutil.copy(demo_file, os.path.join(wdir, '_seeded_demo.py'))
            code, txt = sh([PY, '-W', 'ignore', '_seeded_demo.py'], cwd=wdir,
                           env=envd, timeout=600)
            out['demo_pristine_exit'] = code
        code, txt = sh(['git', '-C', wdir, 'apply', '--3way',
                        os.path.join(path, 'patch.diff')])
        if code:
            code, txt = sh(['git', '-C', wdir, 'apply',
                            os.path.join(path, 'patch.diff')])
        if code:
            out['error'] = 'patch does not apply: ' + txt[-300:]
            return out
        if demo and os.path.exists(demo_file):
            code, txt = sh([PY, '-W', 'ignore', '_seeded_demo.py'], cwd=wdir,
                           env=envd, timeout=600)
            out['demo_patched_exit'] = code
            out['demo_patched_tail'] = txt.strip().splitlines()[-3:]
        out['checks'] = {}
        for chk in (checks or [prop]):
            envc = dict(os.environ, VERIF_REPO=wdir)
            if seed is not None:
                envc['VERIF_SEED'] = str(seed)
            start = time.time()
            code, txt = sh([os.path.join(VERIF, 'check'), chk, '--tier', tier,
                            '--no-evidence'], cwd=VERIF, env=envc,
                           timeout=6 * 3600)
            lines = txt.strip().splitlines()
            viol = [ln for ln in lines if ln.startswith('VIOLATION')]
            sigs = [ln.strip() for ln in lines
                    if ln.strip().startswith('signature=')]
            out['checks'][chk] = {
                'exit': code, 'violations': len(viol),
                'signatures': [s.split()[0][len('signature='):]
                               for s in sigs][:6],
                'seconds': round(time.time() - start, 1),
                'tail': lines[-2:] if code not in (0, 1) else []}
        return out
    finally:
        sh(['git', '-C', '/repo', 'worktree', 'remove', '--force', wdir])
        shutil.rmtree(wdir, ignore_errors=True)


def main(argv):
    if not argv:
        print(__doc__)
        return 2
    tier = argv[argv.index('--tier') + 1] if '--tier' in argv else 'quick'
    seed = int(argv[argv.index('--seed') + 1]) if '--seed' in argv else None
    if argv[0] == 'eval':
        prop = argv[argv.index('--prop') + 1] if '--prop' in argv else None
        checks = argv[argv.index('--checks') + 1].split(',') \
            if '--checks' in argv else None
        res = evaluate(argv[1], prop, tier, seed, '--no-demo' not in argv,
                       checks)
        print(json.dumps(res, indent=1))
        return 0
    if argv[0] == 'some':
        # re-evaluate the named seeded changes (e.g. after re-basing their
        # patches) and merge the verdicts into seeded/RESULTS_extra.json
        root = os.path.join(VERIF, 'seeded')
        path = os.path.join(root, 'RESULTS_extra.json')
        doc = {'tier': tier, 'results': []}
        if os.path.exists(path):
            with open(path) as fil:
                doc = json.load(fil)
        byid = {r['id']: r for r in doc['results']}
        for name in argv[1:]:
            if name.startswith('--'):
                break
            with open(os.path.join(root, name, 'meta.json')) as fil:
                meta = json.load(fil)
            res = evaluate(os.path.join(root, name), tier=tier, seed=seed,
                           checks=meta.get('checks'))
            byid[name] = res
            print(json.dumps(res)[:300])
            sys.stdout.flush()
        doc['results'] = [byid[k] for k in sorted(byid)]
        with open(path, 'w') as fil:
            json.dump(doc, fil, indent=1)
        return 0
    if argv[0] == 'all':
        root = os.path.join(VERIF, 'seeded')
        results = []
        for name in sorted(os.listdir(root)):
            path = os.path.join(root, name)
            if not os.path.isdir(path) or \
                    not os.path.exists(os.path.join(path, 'patch.diff')):
                continue
            with open(os.path.join(path, 'meta.json')) as fil:
                meta = json.load(fil)
            res = evaluate(path, tier=tier, seed=seed,
                           checks=meta.get('checks'))
            res['needs'] = meta.get('needs')
            res['what'] = meta.get('what')
            results.append(res)
            print(json.dumps(res))
            sys.stdout.flush()
        with open(os.path.join(root, 'RESULTS.json'), 'w') as fil:
            json.dump({'tier': tier, 'results': results}, fil, indent=1)
        print()
        print('| seeded change | property | breaks it by | caught by '
              '(quick) | signatures |')
        print('|---|---|---|---|---|')
        for res in results:
            caught = [c for c, v in res.get('checks', {}).items()
                      if v['exit'] == 1]
            sigs = sorted({s for v in res.get('checks', {}).values()
                           for s in v['signatures']})
            print('| %s | %s | %s | %s | %s |' % (
                res['id'], res['property'], res.get('what', ''),
                ', '.join(caught) or '**missed**', ', '.join(sigs)[:120]))
        return 0
    print(__doc__)
    return 2


if __name__ == '__main__':
    sys.exit(main(sys.argv[1:]))
