#!/usr/bin/env python3
"""Regenerates MANIFEST.json from the table below (run after editing)."""
import json, os, subprocess
HERE = os.path.dirname(os.path.abspath(__file__))

NA = {
 'C05': 'Student verdict: pure function of arrays, level and degrees of freedom; no schedule, clock, I/O outcome or crash point for a simulator to control.',
 'C06': 'Bonferroni/Holm flags: pure function of a p-value array; nothing to schedule or to make fail.',
 'C07': 'Chi-square verdict: pure function of arrays and one option; no nondeterminism or fault in the statement.',
 'C08': 'Dataset arithmetic: pure value semantics of operators on in-memory arrays; input generation would be property-based testing, not simulation.',
 'C09': 'Dataset slicing/squeeze: pure function of a dataset and slices.',
 'C10': 'Numbers read = numbers written: deterministic parse of a complete file; the faulty-file case is C11, which is claimed.',
 'C12': 'Report marks failures: pure rendering function of a result and a verbosity.',
 'C13': 'Observer effect on results: a single-threaded sequence of reads on one object; deterministic, no schedule/clock/I-O to control.',
 'C15': 'Generated tasks one-to-one: process-global cache driven by a single-threaded creation history at job-import time; no interleaving or fault exists for it.',
 'C16': 'Dependency graph vs node/edge set: sequential data structure under an edit history; model-based testing, not simulation.',
 'C17': 'Browser selections: pure query over an in-memory index.',
 'C18': 'Diagnostic statistics: pure aggregation of in-memory results.',
 'C20': 'Written report completeness: deterministic function from a report tree to a set of files; the statement has no crash or I/O failure in it.',
}

CHECKS = {}

def add(prop, category, text, note, technique, ref, engine):
    CHECKS[prop] = {
        'property_id': prop,
        'quick_cmd': './check %s --tier quick' % prop,
        'thorough_cmd': './check %s --tier thorough' % prop,
        'evidence_file': 'evidence/%s.json' % prop,
        'replay_cmd_template': './check %s --replay {path}' % prop,
        'engine': engine,
        'level_claimed': {'category': category, 'text': text, 'design_ref': ref},
        'level_note': note,
        'technique': technique,
    }

SIMNOTE = ('Trusted: the simulated threading/time semantics of /verif/vsim (unfair locks, FIFO notify, no spurious wake-ups), '
           'pre-emption only at synchronisation points (plus source lines of queue.py/env.py/scheduler.py, and run.py/path.py/code.py for C19, in line mode), '
           'probe tasks standing in for real tasks. Sampling of schedules: a clean batch is evidence, not proof.')

add('C01', 'exploration',
    'Seeded search over interleavings of the real queue backend (master + 1-5 workers) on generated hard/soft graphs (handed over node by node, as dependency dictionaries, through the tasks\' dependency sets, or with an embedded sub-graph node; node order and hashes are a seeded permutation) with scripted task outcomes '
    '(success, exception, FAILED, malformed returns, updates that cannot be merged), from an empty environment or one holding DONE entries of an earlier run; '
    'probe tasks check at the first instruction of do() that every dependency is final, not running, and that its complete update is readable. '
    'Exploration is the right level: the property quantifies over all schedules, which can be sampled densely (about 10^5 executions per minute) but not enumerated.',
    SIMNOTE, 'deterministic simulation: baton-passing thread simulator, seeded random-walk / PCT / stall-injection schedules', 'DESIGN.md 4 C01', 'vsim-threads')
add('C02', 'exploration',
    'Same simulated executions, compared with a sequential reference model of the graph (final status map, execution counters, status type), for well-formed, malformed and unmergeable task results, under many schedules and worker counts; a run that never ends leaves tasks without a final state and is reported here too.',
    SIMNOTE, 'deterministic simulation + sequential reference model of the task graph', 'DESIGN.md 4 C02', 'vsim-threads')
add('C03', 'exploration',
    'The simulator decides termination itself: deadlock (nothing runnable, someone unfinished), leaked workers (caller returned or raised, someone blocked forever), no progress (step budget), for acyclic and cyclic graphs, empty and pre-populated environments, malformed and unmergeable results, a second schedule() on the same backend, a second master in another thread, cyclic jobs built through the tasks\' dependency sets, more than a thousand tasks ready at once, and a worker thread whose start() fails (injected fault); a thread that computes for ever without reaching a synchronisation point is caught by a wall-clock guard; after the call the work queue must hold neither items nor unfinished counts.',
    SIMNOTE, 'deterministic simulation with deadlock / leak detection and bounded liveness', 'DESIGN.md 4 C03', 'vsim-threads')

manifest = {
    'version': 1,
    'setup_cmd': './setup.sh',
    'hooks': {
        'guard': 'VALJEAN_VERIF',
        'enable': 'no source hook exists: the checks re-import the scheduler modules of /repo with sys.modules[threading|time|queue] pointing at the simulator shims (vsim/load.py) and bind the subprocess / open seams by attribute',
        'baseline_off_cmd': 'cd /repo && env -u VALJEAN_VERIF GIT_CONFIG_COUNT=1 GIT_CONFIG_KEY_0=init.defaultBranch GIT_CONFIG_VALUE_0=master /venv/bin/python -m pytest -ra -q -p no:cacheprovider --timeout=900 --continue-on-collection-errors --junitxml=/tmp/valjean_baseline.junit.xml',
        'source_commits': [],
        'add_only': True,
    },
    'engines': [
        {'name': 'vsim-threads', 'path': 'vsim/core.py', 'serves_properties': ['C01', 'C02', 'C03', 'C04', 'C19'],
         'kind_free_text': 'deterministic baton-passing thread simulator (simulated threading/time/queue, seeded schedulers, pre-emption-list replay, ddmin minimiser)'},
        {'name': 'vsim-faultfs', 'path': 'vsim/faultfs.py', 'serves_properties': ['C04', 'C14', 'C11'],
         'kind_free_text': 'file-system fault seam: crash points, short/torn writes, I/O errors, restarts with durable state only'},
    ],
    'checks': [],
    'not_applicable': [],
    'notes': 'See DESIGN.md. known_findings.txt lists repaired (fixed:) and recorded (known:) defects. Exit code 2 = harness error, never a verdict.',
}

import importlib.util
extra = os.path.join(HERE, 'tools_manifest_extra.py')
if os.path.exists(extra):
    spec = importlib.util.spec_from_file_location('extra', extra)
    mod = importlib.util.module_from_spec(spec); spec.loader.exec_module(mod)
    mod.extend(add, NA, SIMNOTE)

ADDENDA = {
 'C01': ' Sub-graphs of one to three members, a second (edge-less or empty) sub-graph node, graphs built with the full form of the DepGraph constructor.',
 'C02': ' Also: tasks that iterate over the environment while it grows, updates that are mappings without being dicts (MappingProxyType, UserDict, ChainMap), graphs built with the full form of the DepGraph constructor, one-member sub-graphs.',
 'C03': ' Also: results that cannot even be inspected (dead weak proxies, sequences whose len() raises), open handles in the entries of the initial environment; a thread that keeps the baton without taking a step for the wall-clock guard is a violation (no-progress:spinning), a slow run that still takes steps is not.',
 'C04': ' Exceptions raised by tasks may carry an open handle; chains of a few hundred tasks; 36 000 histories in the quick tier.',
 'C11': ' The corpus also holds listings with any one table row missing and the listings of the documentation notebooks (a few crash points each).',
 'C14': ' Damaged files include valid pickles of the Env class with another state; a read or write that never returns is a violation (SIGALRM watchdog in the shard), not a harness error.',
 'C19': ' A run that never comes back (a spinning directory-creation loop, a child blocked on a full pipe) is a violation; the shard stops after it. A last phase hands jobs with two distinct RunTasks of one name (one output directory), one reached through dependencies only, to collect_tasks: refused, or never collected together. Another phase runs the same job 2-3 times in one simulated execution on real /bin/sh children (environment carried by merge_done_tasks, entries lost, statuses changing, output tree wiped in between) and judges statuses, return codes and captured files of each run against the ledger of the commands actually run in that run.',
}
for prop, text in ADDENDA.items():
    CHECKS[prop]['level_claimed']['text'] += text

for prop in sorted(CHECKS):
    manifest['checks'].append(CHECKS[prop])
for prop in sorted(NA):
    if prop not in CHECKS:
        manifest['not_applicable'].append({'property_id': prop, 'reason': NA[prop]})
with open(os.path.join(HERE, 'MANIFEST.json'), 'w') as f:
    json.dump(manifest, f, indent=1); f.write('\n')
print('claimed', sorted(CHECKS), 'n/a', len(manifest['not_applicable']))
