#!/usr/bin/env python3
"""Compare a junit file of the pinned suite with /root/.vp/BASELINE.json."""
import sys, json
import xml.etree.ElementTree as ET
base = json.load(open('/root/.vp/BASELINE.json'))
tree = ET.parse(sys.argv[1])
passed, failed = set(), set()
for tc in tree.iter('testcase'):
    name = '%s::%s' % (tc.get('classname'), tc.get('name'))
    bad = any(ch.tag in ('failure', 'error') for ch in tc)
    skipped = any(ch.tag == 'skipped' for ch in tc)
    if bad:
        failed.add(name)
    elif not skipped:
        passed.add(name)
stable = set(base['stable_pass'])
missing = sorted(stable - passed)
print('passed %d failed %d; stable_pass %d, of which not passing now: %d'
      % (len(passed), len(failed), len(stable), len(missing)))
for m in missing[:20]:
    print('  MISSING', m)
newfail = sorted(failed - set(base.get('always_fail', [])))
print('failures outside always_fail:', len(newfail))
for m in newfail[:20]:
    print('  NEWFAIL', m)
sys.exit(1 if missing else 0)
