#!/usr/bin/env python3
"""Rewrite the table of seeded changes in DESIGN.md (between the SEEDED-TABLE
markers) from seeded/RESULTS.json, merged with seeded/RESULTS_extra.json
(single re-evaluations after a patch was re-based)."""
import os
import json

HERE = os.path.dirname(os.path.abspath(__file__))
BEGIN, END = '<!-- SEEDED-TABLE-BEGIN -->', '<!-- SEEDED-TABLE-END -->'


def main():
    with open(os.path.join(HERE, 'seeded', 'RESULTS.json')) as fil:
        doc = json.load(fil)
    results = {r['id']: r for r in doc['results']}
    extra = os.path.join(HERE, 'seeded', 'RESULTS_extra.json')
    if os.path.exists(extra):
        with open(extra) as fil:
            for res in json.load(fil)['results']:
                results[res['id']] = res
    rows = ['| seeded change | property | what it does | caught by (quick '
            'tier) | violation signatures |', '|---|---|---|---|---|']
    ncaught = nall = 0
    for sid in sorted(results):
        res = results[sid]
        if not os.path.isdir(os.path.join(HERE, 'seeded', sid)):
            continue
        meta = json.load(open(os.path.join(HERE, 'seeded', sid, 'meta.json')))
        caught = [c for c, v in res.get('checks', {}).items()
                  if v['exit'] == 1]
        sigs = sorted({s for v in res.get('checks', {}).values()
                       for s in v['signatures']})
        nall += 1
        ncaught += bool(caught)
        status = ', '.join(caught) if caught else (
            '**not evaluated: ' + res['error'][:40] + '**'
            if res.get('error') else '**not caught** (%s)'
            % meta.get('not_caught_because', 'reason not recorded'))
        rows.append('| %s | %s | %s | %s | %s |' % (
            sid, meta['property'], meta['what'].replace('|', '/'), status,
            ', '.join(sigs)[:110]))
    rows.append('')
    rows.append('%d of %d seeded changes are caught by the quick tier of at '
                'least one of the checks named in their `meta.json`.'
                % (ncaught, nall))
    path = os.path.join(HERE, 'DESIGN.md')
    text = open(path).read()
    if '@@SEEDED_TABLE@@' in text:
        text = text.replace('@@SEEDED_TABLE@@', BEGIN + '\n' + END)
    head, rest = text.split(BEGIN, 1)
    _old, tail = rest.split(END, 1)
    text = head + BEGIN + '\n' + '\n'.join(rows) + '\n' + END + tail
    open(path, 'w').write(text)
    print('%d/%d' % (ncaught, nall))


if __name__ == '__main__':
    main()
