"""Self-tests that gate trust in the checks.

  python -m checks.selftest determinism [--n N]
      every simulation-based check: N seeds, executed in two fresh
      interpreters with different PYTHONHASHSEED and different worker counts;
      the trace digests must be identical.
  python -m checks.selftest digests <ID> --lo A --hi B
      (internal) print the digests of runs A..B-1 as JSON.
"""
import os
import sys
import json
import random
import subprocess

from vsim import driver

SIM = ('C01', 'C03', 'C04', 'C19')


def _digest_shard(shard):
    from checks import simcheck
    spec = simcheck._spec(shard['spec'])
    out = []
    nfam = len(spec.families)
    for run_no in range(shard['lo'], shard['hi']):
        seed = driver.mix(shard['seed'], run_no)
        rng = random.Random(seed)
        scn = spec.gen(rng, spec.families[run_no % nfam])
        chooser = spec.draw_chooser(rng, scn)
        res = spec.run(scn, chooser)
        sigs = sorted(v[1] for v in spec.oracle(scn, res))
        out.append((run_no, res.sim.digest(), res.sim.steps,
                    res.sim.outcome[0], sigs))
        if shard['spec'] == 'C19' and run_no % 25 == 0:
            # the histories of runs on real children (extra phase of C19)
            from checks import c19, sched
            rng = random.Random(driver.mix(seed, 0xE19))
            scn = c19.gen_rerun(rng)
            res = c19.run_rerun(scn, sched.draw_chooser(rng, scn))
            sigs = sorted(v[1] for v in c19.oracle_rerun(scn, res))
            out.append((run_no + 0.5, res.sim.digest(), res.sim.steps,
                        res.sim.outcome[0], sigs + [repr(res.ledger)]))
    return out


def digests(spec_name, lo, hi, seed):
    from vsim import load
    load.load_sim()
    per = max(1, (hi - lo) // (driver.jobs() * 2))
    shards = [{'spec': spec_name, 'seed': seed, 'lo': a,
               'hi': min(hi, a + per)} for a in range(lo, hi, per)]
    res = driver.run_shards(_digest_shard, shards, shard_wall=900,
                            total_wall=1800)
    flat = [x for part in res for x in part]
    flat.sort()
    return flat


def determinism(n, specs):
    bad = 0
    for spec_name in specs:
        try:
            __import__('checks.%s' % spec_name.lower())
        except ImportError:
            print('determinism %s: no such check yet, skipped' % spec_name)
            continue
        outs = []
        for hashseed, njobs in (('0', '16'), ('12345', '5')):
            env = dict(os.environ)
            env['PYTHONHASHSEED'] = hashseed
            env['VERIF_JOBS'] = njobs
            proc = subprocess.run(
                [sys.executable, '-B', '-m', 'checks.selftest', 'digests',
                 spec_name, '--lo', '0', '--hi', str(n)],
                env=env, capture_output=True, text=True, timeout=3600)
            if proc.returncode != 0:
                print(proc.stdout[-2000:], proc.stderr[-2000:])
                print('determinism %s: digest run failed' % spec_name)
                return 2
            outs.append(json.loads(proc.stdout.strip().splitlines()[-1]))
        first, second = outs
        diff = [(a, b) for a, b in zip(first, second) if a != b]
        print('determinism %s: %d seeds x 2 interpreters (PYTHONHASHSEED 0 / '
              '12345, 16 / 5 workers): %d mismatching digests'
              % (spec_name, len(first), len(diff)))
        for a, b in diff[:5]:
            print('   ', a, b)
        bad += len(diff)
    return 1 if bad else 0


def main(argv):
    if argv and argv[0] == 'digests':
        spec_name = argv[1]
        lo = int(argv[argv.index('--lo') + 1])
        hi = int(argv[argv.index('--hi') + 1])
        print(json.dumps(digests(spec_name, lo, hi, 777)))
        return 0
    if argv and argv[0] == 'determinism':
        n = int(argv[argv.index('--n') + 1]) if '--n' in argv else 2000
        specs = [a for a in argv[1:] if a.upper() in SIM] or SIM
        return determinism(n, specs)
    print(__doc__)
    return 2


if __name__ == '__main__':
    sys.exit(main(sys.argv[1:]))
