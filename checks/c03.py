"""C03 -- scheduling always terminates and leaves no worker thread behind.
The simulator itself detects deadlock (nothing runnable, somebody unfinished),
leaked workers (main returned, somebody blocked forever) and lack of progress
(step budget)."""
from checks import sched, simcheck, c01


class Spec(c01.Spec):
    prop = 'C03'
    runs = {'quick': 24000, 'thorough': 1500000}
    families = [
        {'label': 'acyclic-empty-env', 'family': 'well'},
        {'label': 'acyclic-malformed', 'family': 'malformed'},
        {'label': 'acyclic-unmergeable', 'family': 'unmergeable'},
        {'label': 'tasks-calling-sys-exit', 'family': 'exiting'},
        {'label': 'tasks-echoing-their-entry', 'family': 'echo'},
        {'label': 'cyclic', 'family': 'well', 'cyclic': True},
        {'label': 'initial-env', 'family': 'well', 'init_env': True},
        {'label': 'initial-env-malformed', 'family': 'malformed',
         'init_env': True},
        {'label': 'cyclic-initial-env', 'family': 'mixed', 'cyclic': True,
         'init_env': True},
        {'label': 'scheduled-twice', 'family': 'well', 'calls': 2},
        {'label': 'well-formed-and-wide', 'family': 'wide'},
        {'label': 'thread-start-fails', 'family': 'well',
         'start_fault': True},
        {'label': 'keyboard-interrupt', 'family': 'well', 'interrupt': True},
    ]
    rule = c01.Spec.rule.replace('acyclic hard/soft graph',
                                 'hard/soft graph (acyclic or cyclic)') + \
        ('; initial environments hold DONE/FAILED/SKIPPED '
         'entries for random subsets of tasks; termination, absence of '
         'blocked threads after return and emptiness of the work queue are '
         'decided by the simulator')

    def gen(self, rng, fam):
        return sched.gen_scenario(rng, family=fam['family'],
                                  cyclic=fam.get('cyclic', False),
                                  init_env=fam.get('init_env', False),
                                  calls=fam.get('calls', 1),
                                  start_fault=fam.get('start_fault', False),
                                  interrupt=fam.get('interrupt', False))

    def oracle(self, scn, res):
        return sched.oracle_c03(scn, res)

    def facts(self, scn, res):
        return sched.sched_facts(scn, res)


SPEC = Spec()
