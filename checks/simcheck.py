"""Generic machinery for the checks that explore seeded schedules of a
simulated execution: sharding, aggregation, minimisation, replay, evidence.

A check module provides a ``SPEC`` object (see ``SimSpec``).
"""
import os
import sys
import json
import copy
import time
import random

from vsim import driver, policy, minimise, load, core

MAX_VIOL_PER_SIG = 2


class SimSpec:
    '''What a simulation-based check has to say about itself.'''
    prop = 'C00'
    level = 'exploration'
    runs = {'quick': 1000, 'thorough': 10000}
    shard_runs = 250
    search_tries = 120         # schedules searched per shrink candidate
    families = [{}]            # kwargs for gen(); run r uses r % len
    assumptions = []
    real = []
    stub = []
    rule = ''

    def gen(self, rng, fam):            # -> scenario dict
        raise NotImplementedError

    def draw_chooser(self, rng, scn):   # -> chooser
        raise NotImplementedError

    def run(self, scn, chooser):        # -> result with .sim
        raise NotImplementedError

    def oracle(self, scn, res):         # -> [(class, signature, detail)]
        raise NotImplementedError

    def candidates(self, scn):          # -> iterable of smaller scenarios
        return ()

    def facts(self, scn, res):          # -> dict of counters for evidence
        return {}

    def describe(self, scn):            # compact sample for evidence
        return scn

    def nontrivial(self, scn, res):
        return res.sim.max_runnable >= 2

    def seams(self):
        return load.load_sim()['seams']

    def prepare(self):                  # called once in the parent
        load.load_sim()

    def enter_shard(self):              # called in the pool worker
        pass

    def extra(self, tier, seed):        # optional enumeration phase
        return None

    def what(self, sig, detail):
        return json.dumps(detail, sort_keys=True, default=repr)[:300]


def _spec(name):
    mod = __import__('checks.%s' % name.lower(), fromlist=['SPEC'])
    return mod.SPEC


def _evaluate_factory(spec):
    def evaluate(scn, chooser):
        res = spec.run(scn, chooser)
        if res.sim.unsupported:
            raise driver.HarnessError('HARNESS-UNSUPPORTED: %s'
                                      % res.sim.unsupported)
        sigs = {}
        for _cls, sig, detail in spec.oracle(scn, res):
            sigs.setdefault(sig, detail)
        return sigs, list(res.sim.preempts), res.sim.digest()
    return evaluate


def shard_main(shard):
    spec = _spec(shard['spec'])
    spec.enter_shard()
    base = shard['seed']
    out = {
        'runs': 0, 'outcomes': {}, 'policies': {}, 'digests': set(),
        'nontrivial': 0, 'sim_seconds': 0.0, 'steps': 0, 'switches': 0,
        'preempts': 0, 'decisions': 0, 'hits': {}, 'facts': {},
        'violations': {}, 'samples': [], 'unsupported': None,
        'families': {}, 'zombies': 0, 'linemode': 0,
    }
    nfam = len(spec.families)
    for run_no in range(shard['lo'], shard['hi']):
        seed = driver.mix(base, run_no)
        rng = random.Random(seed)
        fam = spec.families[run_no % nfam]
        scn = spec.gen(rng, fam)
        chooser = spec.draw_chooser(rng, scn)
        res = spec.run(scn, chooser)
        sim = res.sim
        out['runs'] += 1
        key = sim.outcome[0] if sim.outcome else 'none'
        out['outcomes'][key] = out['outcomes'].get(key, 0) + 1
        pname = getattr(chooser, 'name', '?')
        out['policies'][pname] = out['policies'].get(pname, 0) + 1
        fname = fam.get('label', str(run_no % nfam))
        out['families'][fname] = out['families'].get(fname, 0) + 1
        if sim.unsupported:
            out['unsupported'] = sim.unsupported
            break
        nontriv = spec.nontrivial(scn, res)
        if nontriv:
            out['nontrivial'] += 1
            out['digests'].add(int(sim.digest()[:16], 16))
        out['sim_seconds'] += sim.clock - sim.t0
        out['steps'] += sim.steps
        out['switches'] += sim.switches
        out['preempts'] += len(sim.preempts)
        out['decisions'] += sim.ndecisions
        out['zombies'] += sim.zombies
        if scn.get('linemode'):
            out['linemode'] += 1
        for name, cnt in sim.probe_hits.items():
            out['hits'][name] = out['hits'].get(name, 0) + cnt
        for name, cnt in spec.facts(scn, res).items():
            out['facts'][name] = out['facts'].get(name, 0) + cnt
        seen_here = set()
        for cls, sig, detail in spec.oracle(scn, res):
            # the first violation of a run identifies it -- except that a
            # listed known finding must not hide what comes after it
            if sig in seen_here:
                continue
            seen_here.add(sig)
            lst = out['violations'].setdefault(sig, [])
            if len(lst) < MAX_VIOL_PER_SIG:
                # (what the code under test left in an entry may be anything:
                # the record must travel between processes and into a file)
                detail = json.loads(json.dumps(detail, default=repr,
                                               skipkeys=True))
                lst.append({'class': cls, 'signature': sig, 'detail': detail,
                            'scenario': scn,
                            'preempts': [list(p) for p in sim.preempts],
                            'digest': sim.digest(), 'seed': seed,
                            'run_no': run_no, 'policy': pname})
            if sig not in shard.get('known_sigs', ()):
                break
        if key == 'wall-timeout':
            # a thread that never came back: it may still be computing (and
            # holding the interpreter) in this process, and every further
            # run of this kind costs the whole wall-clock guard again.  The
            # point is made and recorded; the shard stops here.
            out['facts']['shard-cut-short-after-wall-timeout'] = 1
            break
        if len(out['samples']) < 1 and nontriv:
            out['samples'].append({
                'seed': seed, 'scenario': spec.describe(scn),
                'policy': chooser.describe() if hasattr(chooser, 'describe')
                else pname,
                'preemptions': [list(p) for p in sim.preempts[:40]],
                'n_preemptions': len(sim.preempts),
                'steps': sim.steps, 'outcome': key,
                'digest': sim.digest()})
    return out


def merge(results):
    tot = None
    for res in results:
        if tot is None:
            tot = res
            continue
        for key in ('runs', 'nontrivial', 'sim_seconds', 'steps', 'switches',
                    'preempts', 'decisions', 'zombies', 'linemode'):
            tot[key] += res[key]
        for key in ('outcomes', 'policies', 'hits', 'facts', 'families'):
            for name, cnt in res[key].items():
                tot[key][name] = tot[key].get(name, 0) + cnt
        tot['digests'] |= res['digests']
        for sig, lst in res['violations'].items():
            cur = tot['violations'].setdefault(sig, [])
            cur.extend(lst[:max(0, MAX_VIOL_PER_SIG - len(cur))])
        if len(tot['samples']) < 3:
            tot['samples'].extend(res['samples'][:1])
        tot['unsupported'] = tot['unsupported'] or res['unsupported']
    return tot


def make_replay_doc(spec, rec, scn, preempts, digest, stats):
    return {
        'property': spec.prop,
        'class': rec['class'],
        'signature': rec['signature'],
        'detail': rec['detail'],
        'scenario': scn,
        'preempts': preempts,
        'digest': digest,
        'found_by': {'seed': rec['seed'], 'run_no': rec['run_no'],
                     'policy': rec['policy'],
                     'original_preempts': len(rec['preempts']),
                     'original_tasks': len(rec['scenario'].get('tasks', []))},
        'minimisation': stats,
        'replay_cmd': './check %s --replay <this file>' % spec.prop,
    }


def minimise_record(spec, rec, budget_s):
    evaluate = _evaluate_factory(spec)
    scn, pre, stats, okay = minimise.minimise(
        evaluate, spec.draw_chooser, spec.candidates,
        copy.deepcopy(rec['scenario']), [tuple(p) for p in rec['preempts']],
        rec['signature'], budget_s=budget_s, tries=spec.search_tries)
    if not okay:
        scn, pre = rec['scenario'], rec['preempts']
        stats['note'] = 'minimisation could not re-establish the violation; '\
            'original execution stored'
    sigs, pre2, digest = evaluate(scn, policy.Preempt(pre))
    doc = make_replay_doc(spec, rec, scn, [list(p) for p in pre2], digest,
                          stats)
    if rec['signature'] in sigs:
        doc['detail'] = sigs[rec['signature']]
    return doc


def do_replay(spec, path):
    doc = driver.read_replay(path)
    evaluate = _evaluate_factory(spec)
    sigs, _pre, digest = evaluate(doc['scenario'],
                                  policy.Preempt(doc['preempts']))
    print('replay %s: signatures=%s digest=%s (recorded %s)'
          % (path, sorted(sigs), digest, doc.get('digest')))
    if doc.get('digest') and digest != doc['digest']:
        # the code under test differs from the tree the file was recorded on
        print('REPLAY-DIVERGED: trace digest differs from the recorded one')
        if doc['signature'] in sigs:
            print('  (the violation still reproduces)')
            print('VIOLATION property=%s replay=%s' % (spec.prop, path))
            return 1
        print('not reproduced: the recorded violation does not occur on this '
              'tree (which is not the tree the file was recorded on)')
        return 0
    if doc['signature'] in sigs:
        print('VIOLATION property=%s replay=%s' % (spec.prop, path))
        print('  signature=%s reproduced exactly' % doc['signature'])
        return 1
    print('not reproduced: the recorded violation does not occur on this tree')
    return 0


def main(spec_name, argv):
    import argparse
    parser = argparse.ArgumentParser(prog='check ' + spec_name)
    parser.add_argument('--tier', default=os.environ.get('VERIF_TIER',
                                                         'quick'))
    parser.add_argument('--seed', type=int, default=None)
    parser.add_argument('--replay', default=None)
    parser.add_argument('--runs', type=int, default=None)
    parser.add_argument('--no-evidence', action='store_true')
    parser.add_argument('--no-minimise', action='store_true')
    args = parser.parse_args(argv)
    spec = _spec(spec_name)
    started = time.time()
    try:
        spec.prepare()
        if args.replay:
            return do_replay(spec, args.replay)
        seed = args.seed if args.seed is not None else driver.base_seed()
        tier = args.tier if args.tier in ('quick', 'thorough') else 'quick'
        total = args.runs or spec.runs[tier]
        print('check %s tier=%s VERIF_SEED=%d runs=%d jobs=%d repo=%s'
              % (spec.prop, tier, seed, total, driver.jobs(),
                 load.repo_path()))
        sys.stdout.flush()
        per = spec.shard_runs
        known_sigs = [ent.get('signature') for ent in driver.load_known()[0]
                      if ent.get('property') == spec.prop]
        shards = [{'spec': spec_name, 'seed': driver.mix(seed, 0xC0),
                   'lo': lo, 'hi': min(total, lo + per),
                   'known_sigs': known_sigs}
                  for lo in range(0, total, per)]
        wall = 1500 if tier == 'quick' else 6 * 3600
        results = driver.run_shards(shard_main, shards, shard_wall=wall,
                                    total_wall=wall)
        tot = merge(results)
        extra = spec.extra(tier, seed)
        if extra:
            for sig, lst in extra.get('violations', {}).items():
                tot['violations'].setdefault(sig, []).extend(lst)
        if tot['unsupported']:
            print('HARNESS-UNSUPPORTED: %s' % tot['unsupported'])
            return 2
        known, _fixed = driver.load_known()
        findings = []
        nviol = 0
        known_seen = []
        for sig in sorted(tot['violations']):
            recs = tot['violations'][sig]
            rec = recs[0]
            ent = driver.is_known(spec.prop, sig, known)
            path = None
            if ent is None:
                nviol += 1
            else:
                known_seen.append(sig)
            if ent is None:
                nunknown = sum(1 for f in findings if f['replay'])
                if args.no_minimise or nunknown >= 4:
                    doc = make_replay_doc(spec, rec, rec['scenario'],
                                          rec['preempts'], rec['digest'], {})
                else:
                    doc = minimise_record(spec, rec,
                                          30.0 if tier == 'quick' else 90.0)
                path = driver.write_replay(spec.prop, doc)
            findings.append({'signature': sig, 'replay': path,
                             'what': spec.what(sig, rec['detail'])})
        wall_s = time.time() - started
        if not args.no_evidence:
            cov = coverage(spec, tot, wall_s, tier)
            cov['known_findings_observed'] = known_seen
            if extra:
                cov['evaluations'] += extra.get('evaluations', 0)
                cov['distinct_nontrivial'] += extra.get('distinct', 0)
                cov.update(extra.get('coverage', {}))
            driver.write_evidence(spec.prop, tier, seed, spec.level, cov,
                                  wall_s, nviol, spec.assumptions)
        code = driver.report(spec.prop, findings, known)
        print('%s: %d runs, %d distinct interleavings, %d violation '
              'signature(s)%s, %.1fs'
              % (spec.prop, tot['runs'], len(tot['digests']), nviol,
                 ' + %d known finding(s)' % len(known_seen)
                 if known_seen else '', wall_s))
        return code
    except driver.HarnessError as exc:
        print('HARNESS-ERROR: %s' % exc)
        return 2
    except core.HarnessUnsupported as exc:
        print('HARNESS-UNSUPPORTED: %s' % exc)
        return 2


def coverage(spec, tot, wall_s, tier):
    runs = tot['runs']
    hours = max(wall_s, 1e-6) / 3600.0
    return {
        'evaluations': runs,
        'distinct_nontrivial': len(tot['digests']),
        'rule': spec.rule,
        'samples': tot['samples'][:3],
        'exhaustive': False,
        'runs_per_hour': int(runs / hours),
        'seeds_per_hour': int(runs / hours),
        'simulated_seconds': round(tot['sim_seconds'], 3),
        'yield_points': tot['steps'],
        'context_switches': tot['switches'],
        'scheduling_decisions': tot['decisions'],
        'preemptions_vs_default_policy': tot['preempts'],
        'runs_with_two_or_more_runnable_threads': tot['nontrivial'],
        'run_outcomes': tot['outcomes'],
        'policies': tot['policies'],
        'scenario_families': tot['families'],
        'line_mode_runs': tot['linemode'],
        'faults_and_reach_probes_fired': dict(sorted(
            list(tot['hits'].items()) + list(tot['facts'].items()))),
        'violation_signatures': sorted(tot['violations']),
        'components_real': spec.real,
        'components_stub': spec.stub,
        'seams_bound_to_simulator': spec.seams(),
        'zombie_threads': tot['zombies'],
    }
