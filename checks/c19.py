"""C19 -- a failing command is never reported as done and its output is
captured intact.

Jobs of RunTasks (built through from_cli, from_clis and RunTaskFactory.make)
are scheduled by the real queue backend under the thread simulator; the
``call`` seam of valjean.cosette.run is bound to a scripted process table
(exit statuses, text on both streams written straight to the file descriptors
like a real child, simulated durations, start-up failures).  A minority of
runs use the real subprocess.call on /bin/sh to keep the stub honest.
"""
import os
import random
import copy
import errno
import shlex
import shutil
import tempfile
import subprocess

from vsim import core, driver, load, policy
from checks import sched, simcheck

NAMES_OK = ('run', 'with space', 'ünï', '-dash', 'dot.ted', 'x' * 120,
            'UPPER', 'a b c', 'stdout', 'stderr', 'tab\there', "quo'te",
            # names that differ in little: after the last dot, blank versus
            # underscore, upper versus lower case, a trailing blank
            'solver.debug', 'solver.release', 'case 1', 'case_1', 'Upper',
            'run ', 'run.log', 'stdout.log',
            # long, but a legal file name (255 bytes is the usual limit)
            'y' * 230, '.hidden', '...')
NAMES_BAD = ('sl/ash', 'nul\0char', '.', '..', '/abs', '')
CODE_KINDS = ('checkout', 'build')
_STATE = {}
REAL_WALL_LIMIT = 25.0     # a real /bin/sh printing a few kilobytes
MARKER = '--verif-task-%d'
STALE = 'STALE text left by an earlier run\n'
QUIET = {'exit': 0, 'dur': 0, 'out': '', 'err': '', 'start': None, 'args': [],
         'reads_stdin': False}
START_FAIL = {'ENOENT': FileNotFoundError, 'EACCES': PermissionError,
              'ENOMEM': OSError, 'EAGAIN': OSError,
              # what subprocess raises for a command line it cannot use: an
              # argument that is not a string, a NUL byte in an argument
              'BADARG': TypeError, 'NULBYTE': ValueError,
              # an empty command line
              'EMPTYCLI': IndexError}


def gen_scenario(rng, fam):
    ntask = rng.choice((1, 2, 2, 3, 3, 4, 5, 6))
    real = fam.get('real', False)
    names = []
    pool = list(NAMES_OK)
    rng.shuffle(pool)
    tasks = []
    p_fail = rng.choice((0.0, 0.15, 0.4))
    for i in range(ntask):
        if rng.random() < 0.12 and not real:
            name = rng.choice(NAMES_BAD)
            if name in names:
                name = pool.pop()
        else:
            name = pool.pop()
        names.append(name)
        via = rng.choice(('cli', 'clis', 'clis', 'factory', 'checkout',
                          'build')) if not real \
            else rng.choice(('cli', 'clis'))
        if via in CODE_KINDS and name == '/abs':
            # (an absolute name would make the code under test work at the
            # root of the file system: not in a harness)
            name = pool.pop()
            names[-1] = name
        # code tasks: the k-th call the task makes gets the k-th scripted
        # command (the documented code makes two: clone + checkout, configure
        # + build, whatever the number of targets)
        parent = None
        if via == 'factory' and not real and rng.random() < 0.5:
            cands = [j for j, t in enumerate(tasks)
                     if t['via'] in ('cli', 'clis') and name_valid(t['name'])]
            if cands:
                via, parent = 'fromtask', rng.choice(cands)
        ncmd = 1 if via in ('cli', 'factory', 'fromtask') else \
            rng.choice((2, 3, 5)) if via in CODE_KINDS \
            else rng.randrange(1, 5)
        cmds = []
        for k in range(ncmd):
            cmd = {'exit': 0, 'dur': rng.choice((0, 1, 5, 30)),
                   'out': rng.choice(('', 'O%d.%d line\n' % (i, k),
                                      'O%d.%d no newline' % (i, k),
                                      ('O%d.%d big ' % (i, k)) * 300 + '\n',
                                      'O%d.%d dos\r\nline\rend' % (i, k))),
                   'err': rng.choice(('', 'E%d.%d oops\n' % (i, k),
                                      'E%d.%d partial' % (i, k),
                                      'E%d.%d progress 10%%\r20%%\r\n'
                                      % (i, k),
                                      # a message that is not UTF-8 (Latin-1
                                      # bytes, written as surrogate escapes)
                                      'E%d.%d \udce9chec: fichier non '
                                      'trouv\udce9\n' % (i, k),
                                      # more than a pipe holds
                                      ('E%d.%d long ' % (i, k)) * 7000
                                      + '\n')),
                   'start': None,
                   # the command reads its standard input to the end (cat, a
                   # y/n prompt): it only ends once that input is closed
                   'reads_stdin': rng.random() < 0.1,
                   'args': rng.choice(([], ['-x'], ['two words', '$HOME'],
                                       ["it's"], ['-x'], [],
                                       # braces mean nothing to valjean
                                       ['{print $1}', '${VAR:-x}', '{{x}}'],
                                       # a file name that is not valid UTF-8,
                                       # as os.listdir() returns it
                                       ['caf\udce9.txt'],
                                       # a number: subprocess refuses it
                                       ['-n', 3]))}
            if any(not isinstance(a, str) for a in cmd['args']) and not real:
                cmd['start'] = 'BADARG'
            elif real:
                cmd['err'] = cmd['err'].replace('\udce9', 'e')
                cmd['args'] = [a for a in cmd['args'] if isinstance(a, str)
                               and a.isprintable() and '\udce9' not in a]
            if rng.random() < p_fail and not cmd['start']:
                kind = rng.random()
                if kind < 0.6:
                    cmd['exit'] = rng.choice((1, 2, 127, 255, -9, -15))
                elif not real:
                    cmd['start'] = rng.choice(sorted(START_FAIL))
                else:
                    cmd['start'] = 'ENOENT'
            cmds.append(cmd)
        hard = [j for j in range(i) if rng.random() < 0.25]
        if parent is not None and parent not in hard:
            hard.append(parent)     # what from_task() injects
            hard.sort()
        soft = [j for j in range(i) if j not in hard and rng.random() < 0.15]
        tasks.append({'name': name, 'via': via, 'cmds': cmds, 'hard': hard,
                      'soft': soft, 'stale': rng.random() < 0.3,
                      'parent': parent,
                      # the task's directory is a symbolic link to a place
                      # that is gone (a purged scratch file system)
                      'dangling': (rng.random() < 0.05 and parent is None
                                   and via in ('cli', 'clis')),
                      'targets': rng.choice((None, 1, 2, 3))})
    if fam.get('startup'):
        # the first run of a job: nothing exists yet and the workers start
        # their first tasks at the same moment
        for tsk in tasks[:rng.choice((2, 3))]:
            tsk['hard'], tsk['soft'] = [], []
            if tsk.get('parent') is not None:
                tsk['hard'] = [tsk['parent']]
        return {'kind': 'runjob', 'tasks': tasks,
                'workers': rng.choice((2, 3, 4)),
                'tick': rng.choice(sched.TICKS), 'linemode': True,
                'fresh_roots': True, 'real_call': False, 'startup': True}
    return {'kind': 'runjob', 'tasks': tasks,
            'workers': rng.choice((1, 2, 3, 4)),
            'tick': rng.choice(sched.TICKS),
            'linemode': rng.random() < 0.25 and not real,
            # the output and log roots do not exist yet (first run of a job)
            'fresh_roots': rng.random() < 0.5,
            'real_call': real}


def full_name(tsk):
    if tsk['via'] == 'fromtask':
        return tsk['name'] + '.ft'
    return tsk['name'] + ('.fac' if tsk['via'] == 'factory' else '')


def name_valid(name):
    return '\0' not in name and '/' not in name and \
        name not in ('.', '..', '')


def cli_of(scn, i, k):
    tsk = scn['tasks'][i]
    cmd = tsk['cmds'][k]
    if scn.get('real_call'):
        if cmd['start']:
            return ['/nonexistent/verif-c19-binary-%d-%d' % (i, k)]
        if cmd['exit'] >= 0:
            end = 'exit %d' % cmd['exit']
        else:
            # killed by a signal: subprocess.call returns -signal
            end = 'kill -s %s $$' % {-9: 'KILL', -15: 'TERM'}[cmd['exit']]
        script = "printf '%%s' %s; printf '%%s' %s >&2; %s" % (
            shlex.quote(cmd['out']), shlex.quote(cmd['err']), end)
        return ['/bin/sh', '-c', script, 'sh-%d-%d' % (i, k)] + \
            list(cmd['args'])
    if tsk['via'] == 'factory':
        return ['exe', '--id=%d-%d' % (i, k)] + list(cmd['args'])
    return ['cmd-%d-%d' % (i, k)] + list(cmd['args'])


def expected(scn, proc_log=()):
    '''Reference model: per task (own outcome, commands started, codes).
    RunTasks are judged against the scripted command list; CheckoutTask and
    BuildTask, whose command lines are made by the code under test, against
    the calls they actually made (k-th call = k-th scripted command): DONE iff
    every call exited 0, nothing started after the first failure.'''
    own = []
    calls = {}
    for rec in proc_log:
        if rec['ident'] is not None:
            calls.setdefault(rec['ident'][0], []).append(rec)
    for i, tsk in enumerate(scn['tasks']):
        if tsk['via'] in CODE_KINDS and not name_valid(full_name(tsk)):
            own.append({'status': 'FAILED', 'started': 0, 'codes': None,
                        'raised': True})
            continue
        if tsk['via'] in CODE_KINDS:
            started, codes, raised, status = 0, [], False, 'DONE'
            for rec in calls.get(i, []):
                if status == 'FAILED':
                    break
                started += 1
                if rec.get('raised'):
                    status, raised = 'FAILED', True
                else:
                    codes.append(rec.get('code'))
                    if rec.get('code') != 0:
                        status = 'FAILED'
            own.append({'status': status, 'started': started,
                        'codes': None if raised else codes, 'raised': raised})
            continue
        if not name_valid(full_name(tsk)) or (
                tsk.get('dangling') and not scn.get('fresh_roots')):
            own.append({'status': 'FAILED', 'started': 0, 'codes': None,
                        'raised': True, 'codes_before_failure': []})
            continue
        started, codes, raised = 0, [], False
        status = 'DONE'
        for cmd in tsk['cmds']:
            started += 1
            if cmd['start']:
                status, raised = 'FAILED', True
                break
            code = cmd['exit']
            codes.append(code)
            if code != 0:
                status = 'FAILED'
                break
        own.append({'status': status, 'started': started,
                    'codes': None if raised else codes, 'raised': raised,
                    'codes_before_failure': codes})
    final = {}
    for i, tsk in enumerate(scn['tasks']):
        if any(final[j] in ('FAILED', 'SKIPPED') for j in tsk['hard']):
            final[i] = 'SKIPPED'
        else:
            final[i] = own[i]['status']
    return own, final


class Result:
    pass


def run_scenario(scn, chooser, max_steps=200000):
    mods = load.load_sim()
    run_mod = mods['run']
    top = tempfile.mkdtemp(prefix='c19-', dir=driver.scratch_root())
    if scn.get('fresh_roots'):
        root = os.path.join(top, 'deep', 'out')
        log_root = os.path.join(top, 'deep', 'log')
    else:
        root = os.path.join(top, 'out')
        log_root = os.path.join(top, 'log')
        os.makedirs(root)
        os.makedirs(log_root)
        for tsk in scn['tasks']:
            name = full_name(tsk)
            if tsk.get('dangling') and name_valid(name):
                os.symlink(os.path.join(top, 'gone', name),
                           os.path.join(root, name))
                continue
            if not tsk.get('stale') or not name_valid(name):
                continue
            os.makedirs(os.path.join(root, name), exist_ok=True)
            for fname in ('stdout', 'stderr'):
                with open(os.path.join(root, name, fname), 'w') as fil:
                    fil.write(STALE * 3)
            with open(os.path.join(log_root, name + '.log'), 'w') as fil:
                fil.write(STALE * 3)
            if tsk['via'] == 'checkout':
                # the clone of an earlier run is still there
                os.makedirs(os.path.join(root, name, '.git'), exist_ok=True)
    lf = load.line_files(mods, ('queue', 'env', 'run', 'path', 'code')) \
        if scn.get('linemode') else None
    if scn.get('real_call') and _STATE.get('real_blocked'):
        # a real child has already blocked for good in this process: the
        # point is made, the remaining real runs would only wait as long
        scn = dict(scn, real_call=False, was_real=True)
    sim = core.Sim(chooser, tick=scn['tick'], max_steps=max_steps,
                   line_files=lf, keep_trace=False,
                   wall_limit=REAL_WALL_LIMIT if scn.get('real_call')
                   else 60.0)
    table = {}
    markers = {}
    for i, tsk in enumerate(scn['tasks']):
        for k in range(len(tsk['cmds'])):
            if tsk['via'] in CODE_KINDS or tsk['via'] == 'fromtask':
                markers[MARKER % i] = i
            else:
                table[tuple(cli_of(scn, i, k))] = (i, k)
    ncalls = {}
    proc_log = []
    holder = {}
    PIPE_CAPACITY = 65536

    class FakePopen:
        """The process seam: a scripted process table behind the constructor
        and the methods of subprocess.Popen that call(), run(), check_*()
        and code written directly on Popen use.  The "child" writes to the
        descriptors it is given, or into pipes of the usual capacity when it
        is given subprocess.PIPE."""

        def __init__(self, args, bufsize=-1, executable=None, stdin=None,
                     stdout=None, stderr=None, preexec_fn=None,
                     close_fds=True, shell=False, cwd=None, env=None,
                     universal_newlines=None, startupinfo=None,
                     creationflags=0, restore_signals=True,
                     start_new_session=False, pass_fds=(), *, text=None,
                     encoding=None, errors=None, **kwargs):
            cli = list(args) if not isinstance(args, (str, bytes)) else [args]
            self.args = args
            self.pid = 4000 + len(proc_log)
            self.returncode = None
            self.stdin = None
            self._text = bool(universal_newlines or text or encoding
                              or errors)
            self._targets = {'out': stdout, 'err': stderr}
            self._stdin_open = stdin == subprocess.PIPE
            self._pending = {'out': b'', 'err': b''}
            self.stdout = self.stderr = None
            try:
                key = tuple(cli)
                ident = table.get(key)
            except TypeError:
                ident = None
            if ident is None:
                hits = sorted({markers[tok] for tok in cli
                               if isinstance(tok, str) and tok in markers})
                if len(hits) == 1:
                    # the k-th call made by a code task
                    ident = (hits[0], ncalls.get(hits[0], 0))
                    ncalls[hits[0]] = ident[1] + 1
            rec = {'cli': cli, 'cwd': cwd, 'step': sim.steps,
                   'ident': ident, 'kwargs': sorted(kwargs)}
            proc_log.append(rec)
            self._rec = rec
            if ident is None:
                sim.hit('unknown-command')
                raise FileNotFoundError(errno.ENOENT, 'no such command',
                                        str(cli[0]) if cli else '')
            i, k = ident
            cmds = scn['tasks'][i]['cmds']
            cmd = cmds[k] if k < len(cmds) else QUIET
            rec['cmd'] = cmd
            self._cmd = cmd
            sim.mark('proc-start', ident)
            if cmd['start']:
                rec['raised'] = True
                sim.hit('startup-failure:' + cmd['start'])
                exc = START_FAIL[cmd['start']]
                if cmd['start'] == 'BADARG':
                    raise exc('expected str, bytes or os.PathLike object, '
                              'not int')
                if cmd['start'] == 'NULBYTE':
                    raise exc('embedded null byte')
                if cmd['start'] == 'EMPTYCLI':
                    raise exc('list index out of range')
                raise exc(getattr(errno, cmd['start']),
                          os.strerror(getattr(errno, cmd['start'])),
                          str(cli[0]))
            for name in ('out', 'err'):
                if self._targets[name] == subprocess.PIPE:
                    setattr(self, 'std' + name, _PipeEnd(self, name))
            if self._stdin_open:
                self.stdin = _StdinEnd(self)

        # -- the child ----------------------------------------------------
        def _emit(self, name, data):
            target = self._targets[name]
            if not data or target is None:
                return
            if target == subprocess.PIPE:
                self._pending[name] += data
            elif target == subprocess.STDOUT and name == 'err':
                self._emit('out', data)
            elif target == subprocess.DEVNULL:
                return
            elif isinstance(target, int):
                os.write(target, data)
            else:
                os.write(target.fileno(), data)

        def _run_child(self, drained):
            """The process runs to its end -- unless it fills a pipe that
            nobody reads, in which case it (and whoever waits for it) blocks
            for ever, like the real thing."""
            if self.returncode is not None:
                return
            cmd = self._cmd
            half = len(cmd['out']) // 2
            self._emit('out', cmd['out'][:half].encode('utf-8', 'surrogateescape'))
            if cmd['dur']:
                sim.sleep(cmd['dur'] * sim.tick, 'proc')
            else:
                sim.yield_point('proc')
            self._emit('err', cmd['err'].encode('utf-8', 'surrogateescape'))
            self._emit('out', cmd['out'][half:].encode('utf-8', 'surrogateescape'))
            if not drained and any(len(buf) > PIPE_CAPACITY
                                   for buf in self._pending.values()):
                sim.hit('child-blocked-on-a-full-pipe')
                core.shims()[0].Event().wait()      # never set
            if cmd.get('reads_stdin') and self._stdin_open and not drained:
                # its input is a pipe whose other end is still open in the
                # parent, which is waiting for it: no end-of-file, ever
                sim.hit('child-blocked-reading-an-open-pipe')
                core.shims()[0].Event().wait()
            sim.mark('proc-exit', self._rec['ident'])
            self._rec['exit_step'] = sim.steps
            self._rec['code'] = cmd['exit']
            if cmd['exit'] != 0:
                sim.hit('nonzero-exit')
            self.returncode = cmd['exit']

        def _take(self, name):
            data, self._pending[name] = self._pending[name], b''
            if self._text:
                return data.decode('utf-8', 'surrogateescape') \
                    .replace('\r\n', '\n').replace('\r', '\n')
            return data

        # -- the parent's view --------------------------------------------
        def wait(self, timeout=None):
            self._run_child(drained=False)
            return self.returncode

        def poll(self):
            return self.returncode

        def communicate(self, input=None, timeout=None):
            self._stdin_open = False     # communicate() closes it first
            self._run_child(drained=True)
            out = self._take('out') if self.stdout is not None else None
            err = self._take('err') if self.stderr is not None else None
            return out, err

        def kill(self):
            if self.returncode is None:
                self.returncode = -9

        terminate = kill

        def send_signal(self, _sig):
            self.kill()

        def __enter__(self):
            return self

        def __exit__(self, *exc_info):
            if self.returncode is None and exc_info[0] is None:
                self._run_child(drained=True)
            return False

    class _StdinEnd:
        def __init__(self, proc):
            self.proc = proc

        def write(self, data):
            return len(data)

        def flush(self):
            pass

        def close(self):
            self.proc._stdin_open = False

    class _PipeEnd:
        def __init__(self, proc, name):
            self.proc, self.name = proc, name

        def read(self, *_args):
            # reading drains the pipe: the child can go on
            self.proc._run_child(drained=True)
            return self.proc._take(self.name)

        def readlines(self):
            return self.read().splitlines(True)

        def __iter__(self):
            return iter(self.readlines())

        def close(self):
            pass

    real_popen = subprocess.Popen
    live = []

    class LoggingPopen(real_popen):
        def __init__(self, args, *pargs, **kwargs):
            cli = list(args) if not isinstance(args, (str, bytes)) else [args]
            try:
                ident = table.get(tuple(cli))
            except TypeError:
                ident = None
            rec = {'cli': cli, 'cwd': kwargs.get('cwd'), 'step': sim.steps,
                   'ident': ident, 'kwargs': sorted(kwargs)}
            proc_log.append(rec)
            self._rec = rec
            live.append(self)
            sim.hit('real-subprocess-call')
            sim.yield_point('proc')
            try:
                super().__init__(args, *pargs, **kwargs)
            except BaseException:
                rec['raised'] = True
                raise

        def wait(self, timeout=None):
            code = super().wait(timeout)
            self._rec['code'] = code
            return code

    def main():
        objs = []
        factory = run_mod.RunTaskFactory.from_executable(
            'exe', name='fac', default_args=['--id={ident}'])
        for i, tsk in enumerate(scn['tasks']):
            deps = [objs[j] for j in tsk['hard']]
            soft = [objs[j] for j in tsk['soft']]
            clis = [cli_of(scn, i, k) for k in range(len(tsk['cmds']))] \
                if tsk['via'] not in CODE_KINDS + ('fromtask',) else None
            if tsk['via'] == 'checkout':
                obj = mods['code'].CheckoutTask(
                    tsk['name'], repository='repo-%d' % i,
                    flags=[MARKER % i] + list(tsk['cmds'][0]['args']),
                    ref=MARKER % i, deps=deps, soft_deps=soft)
            elif tsk['via'] == 'build':
                obj = mods['code'].BuildTask(
                    tsk['name'], '/nonexistent/src-%d' % i,
                    configure_flags=[MARKER % i] +
                    list(tsk['cmds'][0]['args']),
                    build_flags=[MARKER % i] +
                    list(tsk['cmds'][1]['args']),
                    targets=['tgt%d' % n for n in range(tsk['targets'])]
                    if tsk.get('targets') else None,
                    deps=deps, soft_deps=soft)
            elif tsk['via'] == 'fromtask':
                # a factory made from another task injects a dependency on it
                # and takes its executable from that task's output directory
                par = tsk['parent']
                fac2 = run_mod.RunTaskFactory.from_task(
                    objs[par], relative_path='bin/tool', name='ft',
                    default_args=[MARKER % i])
                obj = fac2.make(name=tsk['name'],
                                extra_args=list(tsk['cmds'][0]['args']),
                                deps=[objs[j] for j in tsk['hard']
                                      if j != par],
                                soft_deps=soft)
            elif tsk['via'] == 'cli':
                obj = run_mod.RunTask.from_cli(tsk['name'], clis[0],
                                               deps=deps, soft_deps=soft)
            elif tsk['via'] == 'clis':
                obj = run_mod.RunTask.from_clis(tsk['name'], clis,
                                                deps=deps, soft_deps=soft)
            else:
                obj = factory.make(name=tsk['name'], ident='%d-0' % i,
                                   extra_args=clis[0][2:],
                                   deps=deps, soft_deps=soft)
            obj.do = marked_do(sim, obj.do, i)
            objs.append(obj)
        dg = mods['depgraph'].DepGraph
        hard, softg = dg(), dg()
        for obj in objs:
            hard.add_node(obj)
            softg.add_node(obj)
        # the edges are those the task objects carry (what the run command
        # would see), not the scenario's: a task made with fewer dependencies
        # than asked for is scheduled with fewer
        where = {id(obj): i for i, obj in enumerate(objs)}
        for obj in objs:
            for dep in sorted(obj.depends_on, key=lambda t: where[id(t)]):
                hard.add_dependency(obj, on=dep)
            for dep in sorted(obj.soft_depends_on,
                              key=lambda t: where[id(t)]):
                softg.add_dependency(obj, on=dep)
        env = mods['env'].Env()
        holder['env'] = env
        holder['names'] = [o.name for o in objs]
        backend = mods['queue'].QueueScheduling(n_workers=scn['workers'])
        config = mods['config'].Config({'path': {'output-root': root,
                                                 'log-root': log_root}})
        schd = mods['scheduler'].Scheduler(hard_graph=hard, soft_graph=softg,
                                           backend=backend)
        return schd.schedule(env=env, config=config)

    # the seam is subprocess.Popen: call(), run(), check_*() and code written
    # on Popen itself all end up there, whatever name the module under test
    # imported (names bound to the real class at import time are re-bound)
    seam = LoggingPopen if scn.get('real_call') else FakePopen
    rebound = []
    subprocess.Popen = seam
    for mod in (run_mod, mods['code']):
        for name, val in list(vars(mod).items()):
            if val is real_popen:
                rebound.append((mod, name))
                setattr(mod, name, seam)
    res = Result()
    try:
        outcome = sim.run(main)
        res.sim = sim
        res.outcome = outcome
        res.main_exc = sim.main_exc
        res.main_done = sim.threads[0].state == 'D'
        res.alive = [(t.tid, t.name, t.state, t.waiting_on)
                     for t in sim.threads if t.state != 'D']
        res.proc_log = proc_log
        res.root = root
        res.names = holder.get('names')
        res.entries = {}
        res.files = {}
        env = holder.get('env')
        if env is not None and res.names:
            dct = getattr(env, 'dictionary', None) or dict(env)
            for i, name in enumerate(res.names):
                ent = dct.get(name)
                if isinstance(ent, dict):
                    res.entries[i] = {
                        key: (sched.status_name(val) if key == 'status'
                              else val)
                        for key, val in ent.items()
                        if key in ('status', 'return_codes', 'stdout',
                                   'stderr', 'output_dir', 'result', 'clis',
                                   'checkout_log', 'build_log')}
            for i, name in enumerate(res.names):
                tdir = os.path.join(root, name) if name_valid(name) else None
                got = {}
                if tdir and os.path.isdir(tdir):
                    for fname in sorted(os.listdir(tdir)):
                        fpath = os.path.join(tdir, fname)
                        if os.path.isfile(fpath):
                            with open(fpath, 'rb') as fil:
                                got[fname] = fil.read().decode(
                                    'utf-8', 'surrogateescape')
                lpath = os.path.join(log_root, name + '.log') \
                    if name_valid(name) else None
                if lpath and os.path.isfile(lpath):
                    with open(lpath, 'rb') as fil:
                        got['<log>'] = fil.read().decode('utf-8',
                                                     'surrogateescape')
                res.files[i] = got
        res.log_root = log_root
        res.top_level = sorted(os.listdir(root)) if os.path.isdir(root) \
            else []
    finally:
        subprocess.Popen = real_popen
        for mod, name in rebound:
            setattr(mod, name, real_popen)
        for proc in live:
            # a real child still there: blocked for good (a full pipe)
            if not hasattr(proc, '_waitpid_lock'):
                continue            # (never got as far as having a child)
            if getattr(proc, 'returncode', 0) is None and \
                    real_popen.poll(proc) is None:
                _STATE['real_blocked'] = True
                proc.kill()
                try:
                    real_popen.wait(proc, 5)
                except Exception:   # noqa
                    pass
        shutil.rmtree(top, ignore_errors=True)
    return res


def marked_do(sim, real_do, i):
    '''Tell the scheduling policy where a task starts and ends (stalls are
    placed relative to these marks); the task itself is untouched.'''
    def do(env, config):
        sim.mark('do-enter', i)
        try:
            return real_do(env, config)
        finally:
            sim.mark('do-exit', i)
    return do


def oracle(scn, res):
    viol = []
    kind = res.outcome[0] if res.outcome else 'none'
    if kind != 'ok' or not res.main_done:
        viol.append(('run-did-not-finish', 'run-did-not-finish:%s' % kind,
                     {'alive': res.alive}))
        return viol
    if res.main_exc is not None:
        viol.append(('run-raised',
                     'run-raised:%s' % type(res.main_exc).__name__,
                     {'exception': repr(res.main_exc)[:200]}))
        return viol
    own, final = expected(scn, res.proc_log)
    tasks = scn['tasks']
    started = {}
    for rec in res.proc_log:
        if rec['ident'] is None:
            viol.append(('unknown-command', 'unknown-command',
                         {'cli': rec['cli']}))
            continue
        started.setdefault(rec['ident'][0], []).append(rec)
    dirs = {}
    for i, tsk in enumerate(tasks):
        name = full_name(tsk)
        ent = res.entries.get(i, {})
        got = ent.get('status')
        if got != final[i]:
            viol.append(('wrong-status',
                         'wrong-status:%s-for-%s' % (got, final[i]),
                         {'task': name, 'got': got, 'want': final[i],
                          'cmds': [(c['exit'], c['start'])
                                   for c in tsk['cmds']]}))
            continue
        recs = started.get(i, [])
        want_started = 0 if final[i] == 'SKIPPED' else own[i]['started']
        got_ks = [r['ident'][1] for r in recs]
        if got_ks != list(range(want_started)):
            viol.append(('commands-run', 'commands-run:%s' % (
                'after-the-first-failure' if len(got_ks) > want_started and
                final[i] != 'SKIPPED' else 'of-a-skipped-task'
                if final[i] == 'SKIPPED' else 'too-few-or-out-of-order'),
                         {'task': name, 'started': got_ks,
                          'want': list(range(want_started))}))
            continue
        if final[i] == 'SKIPPED' or not name_valid(name) or (
                tsk.get('dangling') and not scn.get('fresh_roots')):
            continue
        tdir = os.path.join(res.root, name)
        dirs.setdefault(os.path.normpath(tdir), []).append(name)
        if tsk['via'] in CODE_KINDS:
            viol.extend(judge_code_task(tsk, name, own[i], recs, ent,
                                        res.files.get(i, {}), res))
            continue
        for rec in recs:
            if rec['cwd'] is None or \
                    os.path.normpath(rec['cwd']) != os.path.normpath(tdir):
                viol.append(('wrong-directory', 'command-cwd-not-task-dir',
                             {'task': name, 'cwd': rec['cwd']}))
        files = res.files.get(i, {})
        ran = [c for c in tsk['cmds'][:own[i]['started']] if not c['start']]
        want_out = ''.join(c['out'] for c in ran)
        if files.get('stdout') != want_out:
            viol.append(('output-differs', 'stdout-differs',
                         {'task': name, 'got': (files.get('stdout') or '')[:80],
                          'want': want_out[:80],
                          'files': sorted(files)}))
        err = files.get('stderr')
        if err is None:
            viol.append(('output-differs', 'stderr-missing',
                         {'task': name, 'files': sorted(files)}))
        else:
            started_cmds = tsk['cmds'][:own[i]['started']]
            bad = captured_differs(err, [
                (rec['cli'], '' if cmd['start'] else cmd['err'])
                for rec, cmd in zip(recs, started_cmds)])
            if bad:
                viol.append(('output-differs', 'stderr-differs',
                             dict(bad, task=name)))
        if own[i]['raised']:
            # a command could not be started: the codes recorded are those of
            # the commands that ran before it (none recorded = none ran)
            want = own[i]['codes_before_failure']
            got = ent.get('return_codes')
            if got != want and not (got is None and not want):
                viol.append(('return-codes',
                             'return-codes-differ:after-a-start-up-failure',
                             {'task': name, 'got': got, 'want': want}))
        if not own[i]['raised']:
            if ent.get('return_codes') != own[i]['codes']:
                viol.append(('return-codes', 'return-codes-differ',
                             {'task': name, 'got': ent.get('return_codes'),
                              'want': own[i]['codes']}))
            for key in ('stdout', 'stderr'):
                path = ent.get(key)
                if not path or os.path.normpath(os.path.dirname(path)) != \
                        os.path.normpath(tdir):
                    viol.append(('wrong-directory',
                                 'captured-file-outside-task-dir',
                                 {'task': name, key: path}))
    for tdir, names in dirs.items():
        if len(names) > 1:
            viol.append(('wrong-directory', 'directory-shared',
                         {'dir': os.path.basename(tdir), 'tasks': names}))
    return viol


def echo_line(cli):
    return '$ ' + ' '.join(shlex.quote(str(tok)) for tok in cli) + '\n'


def captured_differs(text, parts):
    '''``parts``: (command line, text the command wrote) per started command.
    The file must hold the commands' texts in order and nothing else, except
    for the echoed command lines, which the property does not specify: if they
    are there in the documented format they are removed before an exact
    comparison; otherwise only order and containment are required.'''
    rest = text
    want = ''.join(body for _cli, body in parts)
    exact = True
    pos = 0
    pieces = []
    for cli, body in parts:
        echo = echo_line(cli)
        where = rest.find(echo, pos)
        if where < 0:
            exact = False
            break
        pieces.append(rest[pos:where])
        pos = where + len(echo)
    if exact:
        pieces.append(rest[pos:])
        got = ''.join(pieces)
        if got != want:
            return {'got': got[:160], 'want': want[:160], 'mode': 'exact'}
        # every command's text follows its own echo line
        pos = 0
        for cli, body in parts:
            where = rest.find(echo_line(cli), pos) + len(echo_line(cli))
            if not rest.startswith(body, where):
                return {'got': rest[where:where + 80], 'want': body[:80],
                        'mode': 'exact-order'}
            pos = where + len(body)
        return None
    pos = 0
    for _cli, body in parts:
        if not body:
            continue
        where = text.find(body, pos)
        if where < 0:
            return {'got': text[:160], 'missing': body[:60],
                    'mode': 'containment'}
        pos = where + len(body)
    if STALE in text:
        return {'got': text[:160], 'mode': 'stale-text'}
    return None


def judge_code_task(tsk, name, own, recs, ent, files, res):
    '''CheckoutTask / BuildTask: both streams of the commands go to one log
    file; the stub child writes out[:half], err, out[half:].'''
    viol = []
    parts = []
    for rec in recs[:own['started']]:
        cmd = rec['cmd']
        if cmd['start']:
            parts.append((rec['cli'], ''))
            continue
        half = len(cmd['out']) // 2
        parts.append((rec['cli'],
                      cmd['out'][:half] + cmd['err'] + cmd['out'][half:]))
    log = files.get('<log>')
    if log is None:
        viol.append(('output-differs', 'log-missing', {'task': name}))
    else:
        bad = captured_differs(log, parts)
        if bad:
            viol.append(('output-differs', 'log-differs',
                         dict(bad, task=name, kind=tsk['via'])))
    if True:
        # (also when a command could not be started: the task fails, what it
        # knows about itself -- its log, its directory -- is still recorded)
        key = 'checkout_log' if tsk['via'] == 'checkout' else 'build_log'
        want = os.path.join(res.log_root, name + '.log')
        got = ent.get(key)
        if not got or os.path.normpath(got) != os.path.normpath(want):
            viol.append(('wrong-directory', 'log-path-differs',
                         {'task': name, 'got': got}))
    return viol


def shrink(scn):
    ntask = len(scn['tasks'])
    if ntask > 1:
        for k in range(ntask - 1, -1, -1):
            new = copy.deepcopy(scn)
            del new['tasks'][k]
            for tsk in new['tasks']:
                for key in ('hard', 'soft'):
                    tsk[key] = [j - 1 if j > k else j for j in tsk[key]
                                if j != k]
                par = tsk.get('parent')
                if par is not None:
                    if par == k:
                        tsk['parent'], tsk['via'] = None, 'cli'
                    elif par > k:
                        tsk['parent'] = par - 1
            yield new
    if scn['workers'] > 1:
        new = copy.deepcopy(scn)
        new['workers'] -= 1
        yield new
    if scn.get('linemode') and not scn.get('startup'):
        new = copy.deepcopy(scn)
        new['linemode'] = False
        yield new
    for i, tsk in enumerate(scn['tasks']):
        if len(tsk['cmds']) > 1 and tsk['via'] == 'clis':
            for k in range(len(tsk['cmds']) - 1, -1, -1):
                new = copy.deepcopy(scn)
                del new['tasks'][i]['cmds'][k]
                yield new
        for key in ('hard', 'soft'):
            for j in tsk[key]:
                if key == 'hard' and j == tsk.get('parent'):
                    continue
                new = copy.deepcopy(scn)
                new['tasks'][i][key].remove(j)
                yield new
        for k, cmd in enumerate(tsk['cmds']):
            for field, plain in (('exit', 0), ('start', None), ('dur', 0),
                                 ('out', ''), ('err', ''), ('args', [])):
                if cmd[field] != plain:
                    new = copy.deepcopy(scn)
                    new['tasks'][i]['cmds'][k][field] = plain
                    yield new
        if tsk['name'] != 't%d' % i:
            new = copy.deepcopy(scn)
            new['tasks'][i]['name'] = 't%d' % i
            yield new
        if tsk.get('stale'):
            new = copy.deepcopy(scn)
            new['tasks'][i]['stale'] = False
            yield new
        if tsk.get('dangling'):
            new = copy.deepcopy(scn)
            new['tasks'][i]['dangling'] = False
            yield new
        if tsk['via'] in CODE_KINDS:
            new = copy.deepcopy(scn)
            new['tasks'][i]['via'] = 'clis'
            yield new
    if scn.get('fresh_roots') and not scn.get('startup'):
        new = copy.deepcopy(scn)
        new['fresh_roots'] = False
        yield new


# --------------------------------------------------------------------------
# jobs in which two tasks would share one output directory

CURRENT = {}
JOB_FILE = os.path.join(os.path.dirname(os.path.abspath(__file__)), 'jobs',
                        'verif_c19_job.py')


def gen_dupjob(rng):
    '''A job with two distinct RunTasks of one name (hence of one output
    directory: it is derived from the name), one of them reached through the
    dependencies of the tasks that job() returns only.'''
    return {'kind': 'dupjob', 'name': rng.choice(NAMES_OK[:8]),
            'hidden': rng.choice(('first', 'second', 'none', 'deep')),
            'edge': rng.choice(('hard', 'soft')),
            'bystanders': rng.randrange(0, 3),
            'case': rng.randrange(10 ** 6)}


def run_dupjob(scn):
    mods = load.load_sim()
    run_mod, common = mods['run'], mods['common']
    res = Result()
    res.sim = core.NullSim()
    res.sim.nontrivial = True
    res.violations = []

    def make(_case):
        mk = run_mod.RunTask.from_cli
        first = mk(scn['name'], ['/bin/echo', 'first'])
        twin = mk(scn['name'], ['/bin/echo', 'second'])
        key = 'deps' if scn['edge'] == 'hard' else 'soft_deps'
        extra = [mk('bystander-%d' % k, ['/bin/true'])
                 for k in range(scn['bystanders'])]
        if scn['hidden'] == 'none':
            return [first, twin] + extra
        if scn['hidden'] == 'deep':
            mid = mk('middle', ['/bin/true'], **{key: [twin]})
            return [first, mk('top', ['/bin/true'], deps=[mid])] + extra
        top = mk('top', ['/bin/true'], **{key: [twin]})
        return ([first, top] if scn['hidden'] == 'second'
                else [top, first]) + extra

    CURRENT['make'] = make
    try:
        tasks = common.collect_tasks(JOB_FILE, [str(scn['case'])], {})
    except ValueError:
        res.sim.event('dupjob', 'refused')
        return res
    except BaseException as exc:   # noqa
        res.violations.append((
            'duplicate-names', 'job-with-two-tasks-of-one-name:%s'
            % type(exc).__name__, {'exception': repr(exc)[:200]}))
        return res
    finally:
        CURRENT.clear()
    res.sim.event('dupjob', 'accepted')
    # accepted: then the two tasks must not end up in one directory (the
    # directory of a RunTask is <output-root>/<its name>)
    same = [t for t in tasks if getattr(t, 'name', None) == scn['name']]
    if len(same) >= 2:
        res.violations.append((
            'duplicate-names',
            'two-tasks-of-one-name-share-an-output-directory',
            {'name': scn['name'], 'hidden': scn['hidden'],
             'edge': scn['edge'], 'tasks_collected': len(tasks)}))
    return res


def dupjob_phase(tier, seed):
    rng = random.Random(driver.mix(seed, 0xD19))
    out = {'evaluations': 0, 'violations': {}, 'distinct': 0,
           'coverage': {}}
    seen = {}
    for _ in range(40 if tier == 'quick' else 400):
        scn = gen_dupjob(rng)
        res = run_dupjob(scn)
        out['evaluations'] += 1
        seen[scn['hidden'] + '/' + scn['edge']] = \
            seen.get(scn['hidden'] + '/' + scn['edge'], 0) + 1
        for cls, sig, detail in res.violations:
            lst = out['violations'].setdefault(sig, [])
            if len(lst) < 2:
                lst.append({'class': cls, 'signature': sig, 'detail': detail,
                            'scenario': scn, 'preempts': [], 'digest': None,
                            'seed': seed, 'run_no': -1,
                            'policy': 'duplicate-names'})
    out['distinct'] = len(seen)
    out['coverage'] = {'jobs_with_two_tasks_of_one_name': seen}
    return out


# --------------------------------------------------------------------------
# histories: the same job (new task objects of the same names) run two or
# three times in one process on real /bin/sh children, the environment carried
# over the documented way (merge_done_tasks), entries lost and the output tree
# wiped in between.  What is judged is C19 for the commands of EACH run: the
# entry of a task executed in run r speaks of the commands run in run r.

def gen_rerun(rng):
    ntask = rng.choice((2, 3, 3, 4))
    names = list(NAMES_OK[:8])
    rng.shuffle(names)
    tasks = []
    for i in range(ntask):
        hard = [j for j in range(i) if rng.random() < 0.45]
        soft = [j for j in range(i) if j not in hard and rng.random() < 0.25]
        tasks.append({'name': names[i], 'hard': hard, 'soft': soft,
                      'ncmd': rng.choice((1, 2, 3))})
    nrun = rng.choice((2, 2, 3))
    runs = []
    for r in range(nrun):
        p_fail = rng.choice((0.0, 0.2, 0.5)) if r else \
            rng.choice((0.0, 0.0, 0.2))
        exits = [[rng.choice((1, 2, 7)) if rng.random() < p_fail else 0
                  for _ in range(t['ncmd'])] for t in tasks]
        runs.append({'exits': exits,
                     'lose': [i for i in range(ntask)
                              if r and rng.random() < 0.4],
                     'wipe': bool(r) and rng.random() < 0.35})
    return {'kind': 'rerun', 'tasks': tasks, 'runs': runs,
            'workers': rng.choice((1, 2, 3)), 'tick': 1e-4}


def _rerun_texts(r, i, k):
    return 'R%dT%dC%d out\n' % (r, i, k), 'R%dT%dC%d err\n' % (r, i, k)


def run_rerun(scn, chooser):
    mods = load.load_sim()
    run_mod = mods['run']
    top = tempfile.mkdtemp(prefix='c19h-', dir=driver.scratch_root())
    root, log_root = os.path.join(top, 'out'), os.path.join(top, 'log')
    ledger = os.path.join(top, 'ledger')
    sim = core.Sim(chooser, tick=scn['tick'], max_steps=400000,
                   keep_trace=False, wall_limit=REAL_WALL_LIMIT * 2)
    res = Result()
    res.violations = []
    snaps = []

    def cli(r, i, k):
        out, err = _rerun_texts(r, i, k)
        code = scn['runs'][r]['exits'][i][k]
        return ['/bin/sh', '-c',
                'echo %d %d %d >> %s; echo %s; echo %s >&2; exit %d'
                % (r, i, k, shlex.quote(ledger), shlex.quote(out.strip()),
                   shlex.quote(err.strip()), code)]

    def main():
        prev = None
        for r, rdef in enumerate(scn['runs']):
            objs = []
            for i, tsk in enumerate(scn['tasks']):
                objs.append(run_mod.RunTask.from_clis(
                    tsk['name'], [cli(r, i, k) for k in range(tsk['ncmd'])],
                    deps=[objs[j] for j in tsk['hard']],
                    soft_deps=[objs[j] for j in tsk['soft']]))
            dg = mods['depgraph'].DepGraph
            hard, softg = dg(), dg()
            for obj in objs:
                hard.add_node(obj)
                softg.add_node(obj)
            for obj, tsk in zip(objs, scn['tasks']):
                for j in tsk['hard']:
                    hard.add_dependency(obj, on=objs[j])
                for j in tsk['soft']:
                    softg.add_dependency(obj, on=objs[j])
            env = mods['env'].Env()
            if prev is not None:
                env.merge_done_tasks(prev)
                for i in rdef['lose']:
                    env.pop(scn['tasks'][i]['name'], None)
            if rdef['wipe']:
                shutil.rmtree(root, ignore_errors=True)
                shutil.rmtree(log_root, ignore_errors=True)
            carried = {name: copy.deepcopy(dict(ent))
                       for name, ent in dict(env).items()
                       if isinstance(ent, dict)}
            config = mods['config'].Config({'path': {'output-root': root,
                                                     'log-root': log_root}})
            schd = mods['scheduler'].Scheduler(
                hard_graph=hard, soft_graph=softg,
                backend=mods['queue'].QueueScheduling(
                    n_workers=scn['workers']))
            env = schd.schedule(env=env, config=config)
            entries, files = {}, {}
            for i, tsk in enumerate(scn['tasks']):
                ent = dict(env).get(tsk['name'])
                if isinstance(ent, dict):
                    entries[i] = {key: (sched.status_name(val)
                                        if key == 'status' else val)
                                  for key, val in ent.items()
                                  if key in ('status', 'return_codes',
                                             'stdout', 'stderr')}
                got = {}
                for fname in ('stdout', 'stderr'):
                    fpath = os.path.join(root, tsk['name'], fname)
                    if os.path.isfile(fpath):
                        with open(fpath, 'rb') as fil:
                            got[fname] = fil.read().decode(
                                'utf-8', 'surrogateescape')
                files[i] = got
            snaps.append({'entries': entries, 'files': files,
                          'carried': carried})
            prev = env

    try:
        res.outcome = sim.run(main)
        res.sim = sim
        res.main_exc = sim.main_exc
        res.snaps = snaps
        res.ledger = []
        if os.path.isfile(ledger):
            with open(ledger) as fil:
                res.ledger = [tuple(int(x) for x in line.split())
                              for line in fil if line.strip()]
    finally:
        shutil.rmtree(top, ignore_errors=True)
    return res


def oracle_rerun(scn, res):
    out = []

    def bad(sig, **detail):
        out.append(('rerun-history', sig, detail))

    if res.main_exc is not None or res.outcome[0] != 'ok':
        bad('rerun:schedule-did-not-return-normally',
            outcome=repr(res.outcome)[:200], exc=repr(res.main_exc)[:200])
        return out
    last_codes = {}     # task -> exits of its commands, last time it ran
    for r, snap in enumerate(res.snaps):
        ran = {}
        for rr, i, k in res.ledger:
            if rr == r:
                ran.setdefault(i, []).append(k)
        for i, tsk in enumerate(scn['tasks']):
            exits = scn['runs'][r]['exits'][i]
            ent = snap['entries'].get(i)
            status = ent.get('status') if ent else None
            if i in ran:
                ks = ran[i]
                want_ks = []
                for k, code in enumerate(exits):
                    want_ks.append(k)
                    if code:
                        break
                if ks != want_ks:
                    bad('rerun:commands-run-are-not-the-prefix-up-to-the-'
                        'first-failure', run=r, task=i, ran=ks, want=want_ks)
                    continue
                codes = [exits[k] for k in ks]
                last_codes[i] = codes
                want_status = 'DONE' if not any(codes) and \
                    len(codes) == len(exits) else 'FAILED'
                if status != want_status:
                    bad('rerun:status-of-a-task-executed-in-this-run:%s-for-%s'
                        % (status, want_status), run=r, task=i, codes=codes)
                if not ent or ent.get('return_codes') != codes:
                    bad('rerun:return-codes-are-not-those-of-the-commands-'
                        'run-in-this-run', run=r, task=i, want=codes,
                        got=repr(ent and ent.get('return_codes'))[:80],
                        status=status)
                for fname, col in (('stdout', 0), ('stderr', 1)):
                    parts = [(cli_k, _rerun_texts(r, i, k)[col])
                             for k, cli_k in ((k, None) for k in ks)]
                    text = snap['files'][i].get(fname)
                    want = ''.join(body for _c, body in parts)
                    if text is None:
                        bad('rerun:no-%s-file-after-the-run' % fname, run=r,
                            task=i)
                        continue
                    # lines echoing the command lines are not specified
                    kept = ''.join(ln for ln in text.splitlines(True)
                                   if not ln.startswith('$ '))
                    if kept != want:
                        bad('rerun:%s-is-not-what-the-commands-of-this-run-'
                            'wrote' % fname, run=r, task=i, got=kept[:120],
                            want=want[:120])
                    for key in (fname,):
                        path = ent and ent.get(key)
                        if path and not os.path.basename(
                                os.path.dirname(str(path))) == tsk['name']:
                            bad('rerun:capture-path-outside-the-task-'
                                'directory', run=r, task=i, path=str(path))
            elif status == 'DONE':
                # not executed in this run: carried over from an earlier one
                codes = last_codes.get(i)
                if codes is None or any(codes) or \
                        len(codes) != len(exits):
                    bad('rerun:DONE-without-a-fully-successful-execution',
                        run=r, task=i, last=codes)
                elif ent.get('return_codes') != codes:
                    bad('rerun:carried-return-codes-changed', run=r, task=i,
                        want=codes, got=repr(ent.get('return_codes'))[:80])
            elif status == 'FAILED':
                bad('rerun:FAILED-without-running-a-command', run=r, task=i)
    return out


def rerun_phase(tier, seed):
    rng = random.Random(driver.mix(seed, 0xE19))
    out = {'evaluations': 0, 'violations': {}, 'distinct': 0,
           'coverage': {}}
    digests = set()
    facts = {'runs': 0, 'wipes': 0, 'entries_lost': 0, 're_executions': 0,
             'failed_after_DONE': 0, 'commands': 0}
    for n in range(120 if tier == 'quick' else 3000):
        scn = gen_rerun(rng)
        chooser = sched.draw_chooser(rng, scn)
        res = run_rerun(scn, chooser)
        if res.sim.unsupported:
            raise driver.HarnessError('HARNESS-UNSUPPORTED: %s'
                                      % res.sim.unsupported)
        out['evaluations'] += 1
        digests.add(res.sim.digest())
        facts['runs'] += len(scn['runs'])
        facts['wipes'] += sum(1 for rd in scn['runs'] if rd['wipe'])
        facts['entries_lost'] += sum(len(rd['lose']) for rd in scn['runs'])
        facts['commands'] += len(res.ledger)
        seen_done = set()
        for r, snap in enumerate(getattr(res, 'snaps', ())):
            ran = {i for rr, i, _k in res.ledger if rr == r}
            for i in ran:
                if r and any(rr < r and ii == i for rr, ii, _k in res.ledger):
                    facts['re_executions'] += 1
                if i in seen_done and \
                        snap['entries'].get(i, {}).get('status') == 'FAILED':
                    facts['failed_after_DONE'] += 1
            for i, ent in snap['entries'].items():
                if ent.get('status') == 'DONE':
                    seen_done.add(i)
        for cls, sig, detail in oracle_rerun(scn, res):
            lst = out['violations'].setdefault(sig, [])
            if len(lst) < 2:
                lst.append({'class': cls, 'signature': sig, 'detail': detail,
                            'scenario': scn,
                            'preempts': list(res.sim.preempts),
                            'digest': res.sim.digest(), 'seed': seed,
                            'run_no': -1 - n, 'policy': 'rerun-history'})
    out['distinct'] = len(digests)
    out['coverage'] = {'histories_of_runs_on_real_children': facts}
    return out


def shrink_rerun(scn):
    """Simpler histories: fewer runs, no wipe, nothing lost, one worker."""
    if len(scn['runs']) > 2:
        for r in range(1, len(scn['runs'])):
            new = copy.deepcopy(scn)
            del new['runs'][r]
            yield new
    for r, rdef in enumerate(scn['runs']):
        if rdef['wipe']:
            new = copy.deepcopy(scn)
            new['runs'][r]['wipe'] = False
            yield new
        for i in rdef['lose']:
            new = copy.deepcopy(scn)
            new['runs'][r]['lose'].remove(i)
            yield new
        for i, exits in enumerate(rdef['exits']):
            for k, code in enumerate(exits):
                if code:
                    new = copy.deepcopy(scn)
                    new['runs'][r]['exits'][i][k] = 0
                    yield new
    if scn['workers'] > 1:
        yield dict(copy.deepcopy(scn), workers=1)


class Spec(simcheck.SimSpec):
    prop = 'C19'
    level = 'exploration'
    runs = {'quick': 16000, 'thorough': 800000}
    shard_runs = 250
    families = [{'label': 'stub-processes'}] * 16 + \
        [{'label': 'first-run-start-up', 'startup': True}] * 3 + \
        [{'label': 'real-subprocess', 'real': True}]
    rule = ('one evaluation = one simulated run of a job of 1-6 RunTasks '
            '(from_cli / from_clis / RunTaskFactory.make, 1-4 scripted '
            'commands each: exit statuses incl. signals, text on both '
            'streams, durations, start-up failures; task names incl. spaces, '
            'unicode, quotes and invalid file names) on the real queue '
            'backend with 1-4 workers under a seeded schedule; 5% of the '
            'runs use the real subprocess.call on /bin/sh; non-trivial = two '
            'threads runnable at some decision; distinct = distinct trace '
            'digests')
    assumptions = [
        'a child process writes to the descriptors it is given (the stub '
        'uses os.write on them), or into pipes of 64 KiB when it is given '
        'subprocess.PIPE: it blocks for ever on a full pipe nobody reads',
        'the stderr file is only required to contain the commands\' own '
        'stderr texts in order (the echoed command lines are not specified '
        'by the property)',
    ] + list(simcheck.SimSpec.assumptions)
    real = ['valjean.cosette.run (RunTask, RunTaskFactory, run, '
            'make_cap_paths)', 'valjean.path', 'valjean.cosette.pythontask',
            'valjean.cosette.backends.queue', 'valjean.cosette.env',
            'valjean.cosette.scheduler', 'the real file system (scratch)',
            'subprocess.Popen + /bin/sh in the real-subprocess family']
    stub = ['subprocess.Popen, hence call()/run()/check_*() (scripted process '
            'table)', 'threading / time / queue (simulator)']

    def gen(self, rng, fam):
        return gen_scenario(rng, fam)

    def draw_chooser(self, rng, scn):
        if scn.get('startup') and rng.random() < 0.8:
            # one worker is held up somewhere in the first lines of its task
            # while the others go through the same start-up code
            base = policy.RandomWalk(rng, rng.choice((0.0, 0.02, 0.1)))
            return policy.Stall(rng, base, [{
                'at': 'mark', 'kind': 'do-enter', 'k': rng.randrange(1, 4),
                'off': rng.randrange(0, 30),
                'dur': rng.choice((300, 1500))}])
        return sched.draw_chooser(rng, scn)

    def run(self, scn, chooser):
        if scn.get('kind') == 'dupjob':
            return run_dupjob(scn)
        if scn.get('kind') == 'rerun':
            return run_rerun(scn, chooser)
        return run_scenario(scn, chooser)

    def oracle(self, scn, res):
        if scn.get('kind') == 'dupjob':
            return res.violations
        if scn.get('kind') == 'rerun':
            return oracle_rerun(scn, res)
        return oracle(scn, res)

    def candidates(self, scn):
        if scn.get('kind') == 'dupjob':
            return ()
        if scn.get('kind') == 'rerun':
            return shrink_rerun(scn)
        return shrink(scn)

    def extra(self, tier, seed):
        out = dupjob_phase(tier, seed)
        more = rerun_phase(tier, seed)
        out['evaluations'] += more['evaluations']
        out['distinct'] += more['distinct']
        out['coverage'].update(more['coverage'])
        for sig, lst in more['violations'].items():
            out['violations'].setdefault(sig, []).extend(lst)
        return out

    def facts(self, scn, res):
        facts = {}
        if scn.get('kind') in ('dupjob', 'rerun'):
            return facts
        own, final = expected(scn, res.proc_log)
        for i, tsk in enumerate(scn['tasks']):
            facts['task-final:' + final[i]] = \
                facts.get('task-final:' + final[i], 0) + 1
            if not name_valid(full_name(tsk)):
                facts['invalid-task-name'] = \
                    facts.get('invalid-task-name', 0) + 1
        facts['commands-started'] = len(res.proc_log)
        return facts


SPEC = Spec()
