"""Command line of the checks: ./check <id> [options]."""
import sys

SIM_CHECKS = ('C01', 'C02', 'C03', 'C04', 'C19')
OTHER = {'C11': 'checks.c11', 'C14': 'checks.c14'}


def main(argv):
    if not argv:
        print('usage: check <property id> [--tier quick|thorough] '
              '[--seed N] [--replay FILE]')
        return 2
    prop = argv[0].upper()
    if prop in SIM_CHECKS:
        from checks import simcheck
        return simcheck.main(prop, argv[1:])
    if prop in OTHER:
        mod = __import__(OTHER[prop], fromlist=['main'])
        return mod.main(argv[1:])
    print('unknown property %s' % prop)
    return 2


if __name__ == '__main__':
    try:
        CODE = main(sys.argv[1:])
    except SystemExit:
        raise
    except BaseException as exc:   # noqa: harness failure, never a verdict
        import traceback
        traceback.print_exc()
        print('HARNESS-ERROR: %r' % (exc,))
        CODE = 2
    sys.stdout.flush()
    sys.exit(CODE)
