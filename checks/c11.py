"""C11 -- a truncated Tripoli-4 listing gives a parser error or the same
edition results.

Crash model: the writer (a Tripoli-4 job) is killed at an arbitrary instant and
leaves an arbitrary byte prefix of the listing.  Two phases:
 * seeded histories: one simulated reader process parses a seeded sequence of
   (listing, crash point) pairs over many listings, so "whatever was parsed
   earlier in the same process" is part of the schedule;
 * enumeration of crash points per listing (quick: the offsets inside the
   lines the scanner interprets + a seeded sample; thorough: every byte).
References come from parsing the complete listing in a fresh process.
"""
import os
import sys
import copy
import glob
import pickle
import random
import shutil
import signal
import hashlib
import tempfile
import traceback

from vsim import core, driver, load
from vsim.deepeq import deep_diff
from checks import simcheck

KEYWORDS = ('simulation time', 'exploitation time', 'elapsed time',
            'initialization time', 'BATCH', 'number of tasks is',
            'PACKET_LENGTH', 'Edition after batch number',
            'number of batches used', 'batch number :', 'number of batch',
            'RESULTS ARE GIVEN', 'NORMAL COMPLETION', 'PARTIAL EDITION',
            'FATAL ERROR', '#' * 64, 'DUMP HOMOGENIZED MATERIAL')
RUN_DATA_COMPARED = ('number_of_tasks', 'required_batches',
                     'initialization_time')
OP_WATCHDOG = 60
_STATE = {}
IN_SHARD = False


class Watchdog(BaseException):
    pass


def _alarm(_sig, _frm):
    raise Watchdog()


def mods():
    if 'mods' not in _STATE:
        got = load.load_plain(['valjean.eponine.tripoli4.parse'])
        _STATE['mods'] = got[0]
    return _STATE['mods']


# --------------------------------------------------------------------------
# corpus and references

def corpus():
    if 'corpus' in _STATE:
        return _STATE['corpus']
    root = os.path.join(load.repo_path(), 'tests')
    files = sorted(p for p in glob.glob(os.path.join(root, '**', '*.res*'),
                                        recursive=True) if os.path.isfile(p))
    items = []
    for path in files:
        with open(path, 'rb') as fil:
            data = fil.read()
        if not data:
            continue
        items.append({'name': os.path.relpath(path, root), 'path': path,
                      'base': os.path.basename(path), 'data': data})
    # the listings of the documentation's notebooks (other responses than
    # those of the test data: extended meshes, ...); a few crash points each
    docs = os.path.join(load.repo_path(), 'doc')
    for path in sorted(glob.glob(os.path.join(docs, '**', '*.res*'),
                                 recursive=True)):
        if not os.path.isfile(path) or path.endswith('.mesure') or \
                not 0 < os.path.getsize(path) < 600000:
            continue
        with open(path, 'rb') as fil:
            data = fil.read()
        items.append({'name': os.path.relpath(path, load.repo_path()),
                      'path': None, 'base': 'doc-' + os.path.basename(path),
                      'data': data, 'light': True})
    items.extend(synthetic(items))
    from checks import c11_handmade
    items.extend(c11_handmade.listings())
    items.extend(rerun_twins(items))
    items.extend(free_format(items))
    items.extend(without_a_option(items))
    items.extend(other_tails(items))
    items.extend(not_converged(items))
    items.extend(odd_content(items))
    items.extend(missing_rows(items))
    _STATE['corpus'] = items
    _STATE['by_name'] = {it['name']: i for i, it in enumerate(items)}
    return items


def synthetic(items):
    '''Multi-edition listings assembled from single-edition examples by
    repeating the edition block with larger batch numbers and times.  They are
    validated in build_refs() (dropped, never reported, if the complete
    synthetic listing does not parse to the responses of the original).'''
    out = []
    for item in items:
        text = item['data'].decode('utf-8', 'ignore')
        if 'failure' in item['base'] or 'PARA' in item['base']:
            continue
        lines = text.splitlines(keepends=True)
        starts = [i for i, l in enumerate(lines) if 'RESULTS ARE GIVEN' in l]
        ends = [i for i, l in enumerate(lines)
                if 'simulation time (s)' in l]
        bnum = [i for i, l in enumerate(lines)
                if l.startswith(' batch number :')]
        if len(starts) != 1 or len(ends) != 1 or not bnum or \
                ends[0] < starts[0]:
            continue
        last_b = [i for i in bnum if i < starts[0]]
        if not last_b:
            continue
        blk_lo = last_b[-1]
        blk_hi = ends[0] + 1
        try:
            nbatch = int(lines[blk_lo].split()[-1])
            tsim = int(lines[ends[0]].split()[-1])
        except ValueError:
            continue
        block = lines[blk_lo:blk_hi]
        pieces = lines[:blk_hi]
        for rep in (1, 2):
            newb = nbatch * (rep + 1)
            newt = (tsim + 7) * (rep + 1) * 13
            for line in block:
                if line.startswith(' batch number :'):
                    line = ' batch number : %d\n' % newb
                elif 'Edition after batch number' in line:
                    line = line.replace(str(nbatch), str(newb))
                elif 'simulation time (s)' in line:
                    line = line.replace(str(tsim), str(newt), 1) \
                        if str(tsim) in line else line
                pieces.append(line)
        pieces.extend(lines[blk_hi:])
        data = ''.join(pieces).encode('utf-8')
        out.append({'name': 'synthetic/3x-' + item['base'], 'path': None,
                    'base': item['base'], 'data': data,
                    'origin': item['name'], 'nbatch': nbatch})
        if len(out) >= 6:
            break
    return out


def rerun_twins(items):
    '''The same job run again in place with another seed: same file name,
    same size byte for byte (Tripoli-4 prints fixed-width numbers), other
    numbers.  A reader that has seen one and is handed the other at the same
    path with the same crash point must not confuse them.'''
    import re
    out = []
    pat = re.compile(rb'(?<![\d.])([1-8])(\.\d{6}e[+-]\d\d)')
    for item in items:
        if item.get('path') is None and not item.get('handmade'):
            continue
        if 'failure' in item['base'] or len(out) >= 5:
            continue
        if not (item.get('handmade') or item['base'].startswith(
                ('ttsSimplePacket20.d.res', 'tungstene.d.res',
                 'vov.d.res'))):
            continue
        data = item['data']
        start = data.find(b'RESULTS ARE GIVEN')
        if start < 0:
            continue
        head, body = data[:start], data[start:]
        new = pat.sub(lambda m: bytes([m.group(1)[0] + 1]) + m.group(2), body)
        if new == body or len(new) != len(body):
            continue
        twin = {'name': 'rerun/' + item['base'], 'path': None,
                'base': item['base'], 'data': head + new,
                'twin_of': item['name'], 'rerun': True}
        out.append(twin)
        item['twin'] = twin['name']
    return out


def odd_content(items):
    '''Values that are not numbers where a table has numbers (what a C
    program prints for NaN, infinity or an overflowing field), and editions
    without any RESPONSE FUNCTION block (a criticality job with nothing but
    the default k-effective estimators).'''
    import re
    out = []
    row = re.compile(rb'^(\d\.\d+e[-+]\d+ - \d\.\d+e[-+]\d+[ \t]+)'
                     rb'(\d\.\d+e[-+]\d+)', re.M)
    strip = re.compile(rb'\*{78}\nRESPONSE FUNCTION.*?'
                       rb'(?=\t  KSTEP ESTIMATOR)', re.S)
    for item in items:
        if item.get('path') is None or 'failure' in item['base']:
            continue
        data = item['data']
        hit = row.search(data)
        if hit and len([o for o in out if 'odd-value' in o['name']]) < 6:
            for tag, odd in (('nan', b'-nan'), ('stars', b'************')):
                out.append({'name': 'odd-value-%s/%s' % (tag, item['base']),
                            'path': None,
                            'base': 'ov%s-%s' % (tag, item['base']),
                            'data': data[:hit.start(2)] + odd +
                            data[hit.end(2):], 'derived': True})
        best = re.compile(rb'^[ \t]*best results are obtained with discarding '
                          rb'\d+ batches[ \t]*\n', re.M)
        if best.search(data) and \
                len([o for o in out if 'no-best' in o['name']]) < 4:
            # the automatic estimators printed without their "best results
            # are obtained with discarding N batches" line (optional in the
            # grammar): the first one only, and all of them
            out.append({'name': 'no-best-line-first/' + item['base'],
                        'path': None, 'base': 'nb1-' + item['base'],
                        'data': best.sub(b'', data, count=1),
                        'derived': True})
            out.append({'name': 'no-best-line/' + item['base'],
                        'path': None, 'base': 'nb-' + item['base'],
                        'data': best.sub(b'', data), 'derived': True})
        if b'KSTEP ESTIMATOR' in data:
            bare = strip.sub(b'', data)
            if bare != data and b'RESPONSE FUNCTION' not in bare:
                out.append({'name': 'no-responses/' + item['base'],
                            'path': None, 'base': 'nr-' + item['base'],
                            'data': bare, 'derived': True})
    return out


def not_converged(items):
    '''A job killed early has run few batches: Tripoli-4 prints "NOT YET
    CONVERGED" in place of integrated results and "Not converged" in the
    tables of combined k-effective estimators.  The grammar accepts both.'''
    import re
    out = []
    integrated = re.compile(rb'^number of batches used:[ \t]*\d+[ \t]+'
                            rb'[-+0-9.eE]+[ \t]+[-+0-9.eE]+[ \t]*$', re.M)
    combo = re.compile(rb'^([ \t]*K\w+ <-> K\w+[ \t]+)([-+0-9.eE]+)([ \t]+)'
                       rb'([-+0-9.eE]+)', re.M)
    for item in items:
        if item.get('path') is None or 'failure' in item['base']:
            continue
        data = item['data']
        if integrated.search(data) and \
                len([o for o in out if 'integrated' in o['name']]) < 6:
            out.append({'name': 'not-converged-integrated/' + item['base'],
                        'path': None, 'base': 'nci-' + item['base'],
                        'data': integrated.sub(b'\t NOT YET CONVERGED ', data),
                        'derived': True})
        if combo.search(data):
            for col, repl in ((2, rb'\1Not converged\3\4'),
                              (4, rb'\1\2\3Not converged')):
                out.append({'name': 'not-converged-keff-col%d/%s'
                            % (col, item['base']), 'path': None,
                            'base': 'nck%d-%s' % (col, item['base']),
                            'data': combo.sub(repl, data), 'derived': True})
    return out


def other_tails(items):
    '''Two more things a real job may print that no example happens to show:
    a final "simulation time" that differs from the time of the last edition
    (the job went on for a second after the edition), and characters outside
    ASCII far from the top of the file (a comment of the data file, a path).'''
    import re
    out = []
    trailing = re.compile(rb'(simulation time \(s\): )(\d+)')
    for item in items:
        if item.get('path') is None or 'failure' in item['base']:
            continue
        data = item['data']
        hits = list(trailing.finditer(data))
        if hits and len([o for o in out if 'later-end' in o['name']]) < 4:
            last = hits[-1]
            new = str(int(last.group(2)) + 1).encode()
            out.append({'name': 'later-end/' + item['base'], 'path': None,
                        'base': 'le-' + item['base'],
                        'data': data[:last.start(2)] + new +
                        data[last.end(2):],
                        'focus': [max(0, last.start() - 80),
                                  last.end() + 4],
                        'derived': True})
        where = data.find(b'\n', 6000)
        first = data.find(b'RESULTS ARE GIVEN')
        if 0 < where < first and \
                len([o for o in out if 'non-ascii' in o['name']]) < 3:
            comment = ' // géométrie : température ± 5 °C, maillage n°2\n' \
                .encode('utf-8')
            out.append({'name': 'non-ascii/' + item['base'], 'path': None,
                        'base': 'na-' + item['base'],
                        'data': data[:where + 1] + comment +
                        data[where + 1:],
                        'focus': [where, where + len(comment) + 2],
                        'derived': True})
    return out


def without_a_option(items):
    '''Tripoli-4 run without its '-a' option does not print the rows of a
    table whose score is zero: the tables the builders receive have holes.
    The parser's own error for them is fine, another exception is not.'''
    import re
    zero = re.compile(r'^[-+]?0\.0+e[-+]00$')
    out = []
    for item in items:
        if item.get("path") is None or len(out) >= 30:
            continue
        if 'failure' in item['base']:
            continue
        lines = item['data'].decode('utf-8', 'ignore').splitlines(True)
        kept, removed = [], 0
        for line in lines:
            words = line.split()
            if len(words) >= 3 and zero.match(words[-1]) and \
                    zero.match(words[-2]):
                removed += 1
                continue
            kept.append(line)
        if not removed or removed > len(lines) // 2:
            continue
        out.append({'name': 'no-a-option/' + item['base'], 'path': None,
                    'base': 'noa-' + item['base'],
                    'data': ''.join(kept).encode('utf-8'),
                    'rows_removed': removed, 'derived': True})
    return out


def missing_rows(items):
    '''Tables that lack one row somewhere (what '-a' does to zero scores,
    here to any row): the builders dimension their arrays on one table and
    fill them from the others.  A few crash points per listing are enough
    (flag 'light'): what matters is the edition that holds the table.'''
    import re
    import zlib
    row = re.compile(rb'^[ \t]*\d\.\d+e[-+]\d+[ \t]+(- )?\d\.\d+e[-+]\d+'
                     rb'([ \t]+[-+]?\d\.\d+e[-+]\d+)+[ \t]*$')
    out = []
    for item in items:
        if item.get('path') is None or 'failure' in item['base'] or \
                len(out) >= 36:
            continue
        rich = any(w in item['base'] for w in ('greenband', 'sensitiv'))
        if not rich and len([o for o in out if not o.get('rich')]) >= 12:
            continue
        lines = item['data'].split(b'\n')
        tables, cur = [], []
        for num, line in enumerate(lines):
            if row.match(line):
                cur.append(num)
            else:
                if len(cur) >= 2:
                    tables.append(cur)
                cur = []
        if len(tables) < 2:
            continue
        rng = random.Random(zlib.crc32(item['base'].encode()))
        picks = {0, len(tables) - 1} if rich else set()
        while len(picks) < min(len(tables), 8 if rich else 1):
            picks.add(rng.randrange(len(tables)))
        for tno in sorted(picks):
            kept = list(lines)
            del kept[tables[tno][-1]]
            out.append({'name': 'missing-row-t%d/%s' % (tno, item['base']),
                        'path': None,
                        'base': 'mr%d-%s' % (tno, item['base']),
                        'data': b'\n'.join(kept), 'derived': True,
                        'light': True, 'rich': rich})
    return out


def free_format(items):
    '''Tripoli-4 data files are free-format and the listing echoes them as
    they are: "BATCH 200" may as well be "BATCH" / "200" on two lines (the
    scanner then does not know the number of batches asked for).'''
    import re
    out = []
    pat = re.compile(rb'^([ \t]*)BATCH[ \t]+(\d+)[ \t]*\n', re.M)
    for item in items:
        if item.get('path') is None or len(out) >= 3:
            continue
        if not item['base'].startswith(('ttsSimplePacket20.d.res',
                                        'tungstene.d.res', 'vov.d.res')):
            continue
        data, count = pat.subn(rb'\1BATCH\n\1\2\n', item['data'], count=1)
        if count != 1:
            continue
        where = pat.search(item['data']).start()
        out.append({'name': 'freeformat/' + item['base'], 'path': None,
                    'base': 'ff-' + item['base'], 'data': data,
                    'focus': [max(0, where - 4), where + 60],
                    'twin_of': item['name'], 'rerun': True,
                    'no_twin_ops': True})
        # a comment of the data file that happens to contain the keyword
        comment = b' /* 50 BATCHES OF 1000 PARTICLES, LAST BATCH DISCARDED */\n'
        out.append({'name': 'freeformat-comment/' + item['base'],
                    'path': None, 'base': 'ffc-' + item['base'],
                    'data': item['data'][:where] + comment +
                    item['data'][where:],
                    'focus': [max(0, where - 4), where + len(comment) + 30],
                    'twin_of': item['name'], 'rerun': True,
                    'no_twin_ops': True})
    pack = re.compile(rb'^([ \t]*)PACKET_LENGTH[ \t]+(\d+)[ \t]*\n', re.M)
    for item in items:
        if item.get('path') is None or 'PARA' not in item['base']:
            continue
        # the same keywords in another order: PACKET_LENGTH before BATCH
        mpack, mbatch = pack.search(item['data']), pat.search(item['data'])
        if mpack and mbatch and mbatch.start() < mpack.start():
            data = item['data']
            swapped = data[:mbatch.start()] + mpack.group(0) + \
                data[mbatch.start():mpack.start()] + data[mpack.end():]
            out.append({'name': 'freeformat-order/' + item['base'],
                        'path': None, 'base': 'ffo-' + item['base'],
                        'data': swapped,
                        'focus': [max(0, mbatch.start() - 4),
                                  mbatch.start() + 80],
                        'twin_of': item['name'], 'rerun': True,
                        'no_twin_ops': True})
        data, count = pack.subn(rb'\1PACKET_LENGTH\n\1\2\n', item['data'],
                                count=1)
        if count == 1:
            where = pack.search(item['data']).start()
            out.append({'name': 'freeformat-packet/' + item['base'],
                        'path': None, 'base': 'ffp-' + item['base'],
                        'data': data,
                        'focus': [max(0, where - 4), where + 60],
                        'twin_of': item['name'], 'rerun': True,
                        'no_twin_ops': True})
    return out


def _parse_complete(item, workdir):
    '''Runs in a fresh child process.'''
    parse = mods()
    path = os.path.join(workdir, item['base'])
    with open(path, 'wb') as fil:
        fil.write(item['data'])
    ref = {'scan': 'ok', 'batches': [], 'res': {}}
    try:
        parser = parse.Parser(path)
    except parse.ParserException:
        ref['scan'] = 'parser-exception'
        return ref
    except Exception as exc:   # noqa
        ref['scan'] = 'other:%s' % type(exc).__name__
        return ref
    ref['batches'] = parser.batch_numbers()
    for bnum in ref['batches']:
        try:
            ref['res'][bnum] = parser.parse_from_number(bnum).res
        except parse.ParserException:
            ref['res'][bnum] = None
        except Exception as exc:  # noqa
            ref['res'][bnum] = None
            ref.setdefault('other', []).append((bnum, type(exc).__name__))
    return ref


def build_refs():
    '''Parse every complete listing in its own fresh process.'''
    if 'refdir' in _STATE:
        return
    items = corpus()
    mods()
    refdir = tempfile.mkdtemp(prefix='c11-ref-', dir=driver.scratch_root())
    _STATE['refdir'] = refdir
    _STATE['owner'] = os.getpid()
    import atexit
    atexit.register(cleanup)
    pending = list(range(len(items)))
    running = {}
    while pending or running:
        while pending and len(running) < driver.jobs():
            idx = pending.pop(0)
            pid = os.fork()
            if pid == 0:
                code = 0
                try:
                    signal.alarm(300)
                    wdir = os.path.join(refdir, 'w%d' % idx)
                    os.makedirs(wdir)
                    ref = _parse_complete(items[idx], wdir)
                    with open(os.path.join(refdir, '%d.pkl' % idx), 'wb') as f:
                        pickle.dump(ref, f)
                except BaseException:  # noqa
                    traceback.print_exc()
                    code = 3
                finally:
                    os._exit(code)
            running[pid] = idx
        pid, status = os.wait()
        idx = running.pop(pid)
        if status != 0:
            raise driver.HarnessError('reference parse of %s failed (%d)'
                                      % (items[idx]['name'], status))
    # validate the synthetic listings against their origin
    refs = [load_ref(i) for i in range(len(items))]
    by_name = _STATE['by_name']
    dropped = []
    for idx, item in enumerate(items):
        if item.get('handmade'):
            ref = refs[idx]
            # dropped only when the parser itself refuses it (the template
            # is wrong); a complete listing on which parsing fails with
            # another exception stays in: that is a violation, reported by
            # the operations on it
            foreign = ref['scan'].startswith('other') or ref.get('other')
            if 'with-a-hole' in item['name']:
                # the parser's own error is the expected answer here
                continue
            if not foreign and (
                    ref['scan'] != 'ok' or len(ref['batches']) != 2 or
                    any(ref['res'].get(b) is None for b in ref['batches'])):
                dropped.append(item['name'])
                item['dropped'] = True
            continue
        if item.get('rerun'):
            ref = refs[idx]
            oref = refs[by_name[item['twin_of']]]
            foreign = ref['scan'].startswith('other') or ref.get('other')
            if not foreign and (ref['scan'] != 'ok' or
                                ref['batches'] != oref['batches'] or
                                any(ref['res'].get(b) is None
                                    for b in ref['batches'])):
                dropped.append(item['name'])
                item['dropped'] = True
                items[by_name[item['twin_of']]].pop('twin', None)
            continue
        if 'origin' not in item:
            continue
        ref = refs[idx]
        oref = refs[by_name[item['origin']]]
        good = ref['scan'] == 'ok' and len(ref['batches']) == 3 and \
            oref['scan'] == 'ok' and len(oref['batches']) == 1
        if good:
            ores = oref['res'][oref['batches'][0]]
            for bnum in ref['batches']:
                res = ref['res'][bnum]
                if res is None or ores is None or deep_diff(
                        res['list_responses'], ores['list_responses']):
                    good = False
        if not good:
            dropped.append(item['name'])
            item['dropped'] = True
    _STATE['dropped'] = dropped


def load_ref(idx):
    cache = _STATE.setdefault('refs', {})
    if idx not in cache:
        with open(os.path.join(_STATE['refdir'], '%d.pkl' % idx), 'rb') as f:
            cache[idx] = pickle.load(f)
    return cache[idx]


def cleanup():
    if _STATE.get('owner') == os.getpid() and 'refdir' in _STATE:
        shutil.rmtree(_STATE['refdir'], ignore_errors=True)


def active_items():
    return [i for i, it in enumerate(corpus()) if not it.get('dropped')]


# --------------------------------------------------------------------------
# one operation: parse one prefix

def _innermost(exc):
    frames = traceback.extract_tb(exc.__traceback__)
    where = '?'
    for frm in frames:
        if os.sep + 'valjean' + os.sep in frm.filename:
            where = '%s:%s' % (os.path.basename(frm.filename), frm.name)
    return where


def compare(res, ref):
    '''Differences between a truncated-side result and the reference.'''
    diffs = []
    keys = set(res) | set(ref)
    for key in sorted(keys):
        if key == 'run_data':
            for sub in RUN_DATA_COMPARED:
                a = res.get('run_data', {}).get(sub)
                b = ref.get('run_data', {}).get(sub)
                if a != b:
                    diffs.append('run_data/%s: %r != %r' % (sub, a, b))
            continue
        if key not in res or key not in ref:
            diffs.append('%s: present on one side only' % key)
            continue
        if key == 'batch_data':
            bres, bref = dict(res[key]), dict(ref[key])
            times = [k for k in bref if k.endswith('_time')]
            ok_time = False
            for tkey in times:
                if bres.get(tkey) is None:
                    # printed after the end flag of the edition: "not
                    # written yet" is not "wrong"
                    bres.pop(tkey, None)
                    bref.pop(tkey, None)
                elif bres[tkey] == bref[tkey]:
                    ok_time = True
            if times and not ok_time and not any(
                    k.endswith('_time') for k in bres):
                diffs.append('batch_data: no time at all')
            diffs.extend(deep_diff(bres, bref, 'batch_data'))
            continue
        diffs.extend(deep_diff(res[key], ref[key], key))
    return diffs


def eval_op(idx, cut, stats, reparse=False):
    '''Parse the prefix [0:cut) of corpus item idx.  Returns violations.'''
    parse = mods()
    item = corpus()[idx]
    ref = load_ref(idx)
    wdir = _STATE.get('wdir')
    if wdir is None or _STATE.get('wdir_pid') != os.getpid():
        wdir = tempfile.mkdtemp(prefix='c11-w-', dir=driver.scratch_root())
        _STATE['wdir'] = wdir
        _STATE['wdir_pid'] = os.getpid()
        import atexit
        atexit.register(shutil.rmtree, wdir, True)
    path = os.path.join(wdir, item['base'])
    with open(path, 'wb') as fil:
        fil.write(item['data'][:cut])
    viol = []
    detail = {'listing': item['name'], 'cut': cut, 'size': len(item['data'])}
    tail = item['data'][max(0, cut - 60):cut].decode('utf-8', 'replace')
    detail['last_bytes'] = tail.rsplit('\n', 1)[-1][-60:]
    stats['ops'] = stats.get('ops', 0) + 1
    try:
        parser = parse.Parser(path)
    except parse.ParserException:
        stats['scan-parser-exception'] = stats.get('scan-parser-exception',
                                                   0) + 1
        return viol, 'scan-error'
    except Watchdog:
        raise
    except Exception as exc:   # noqa
        viol.append(('raised', 'scan-raised:%s@%s' % (type(exc).__name__,
                                                      _innermost(exc)),
                     dict(detail, exception=repr(exc)[:160])))
        return viol, 'scan-raised'
    batches = parser.batch_numbers()
    stats['scan-ok'] = stats.get('scan-ok', 0) + 1
    memo = _STATE.setdefault('memo', {})
    outcome = []
    for pos, bnum in enumerate(batches):
        last = pos == len(batches) - 1
        try:
            gvars = parser.scan_res.global_variables(bnum)
            text = parser.scan_res[bnum]
            key = (idx, bnum, hashlib.blake2b(text.encode(),
                                              digest_size=12).digest(),
                   repr(sorted((k, repr(v)) for k, v in gvars.items()
                               if k != 't4_file')))
        except Exception:  # noqa
            key = None
        if key is not None and key in memo and not reparse:
            stats['parse-memo-hit'] = stats.get('parse-memo-hit', 0) + 1
            outcome.append(memo[key])
            continue
        try:
            if last:
                got = parser.parse_from_index(-1).res
            else:
                got = parser.parse_from_number(bnum).res
        except parse.ParserException:
            stats['parse-parser-exception'] = stats.get(
                'parse-parser-exception', 0) + 1
            if key is not None:
                memo[key] = 'parser-exception'
            outcome.append('parser-exception')
            continue
        except Watchdog:
            raise
        except Exception as exc:  # noqa
            viol.append(('raised', 'parse-raised:%s@%s' % (
                type(exc).__name__, _innermost(exc)),
                dict(detail, edition=bnum, exception=repr(exc)[:160])))
            outcome.append('raised')
            continue
        stats['parse-ok'] = stats.get('parse-ok', 0) + 1
        want = ref['res'].get(bnum) if ref['scan'] == 'ok' else None
        if want is None:
            stats['incomparable'] = stats.get('incomparable', 0) + 1
            if key is not None:
                memo[key] = 'incomparable'
            outcome.append('incomparable')
            continue
        diffs = compare(got, want)
        stats['editions-compared'] = stats.get('editions-compared', 0) + 1
        if diffs:
            cls = diffs[0].split(':')[0].split('[')[0]
            viol.append(('differs', 'result-differs:%s' % cls[:60],
                         dict(detail, edition=bnum, diffs=diffs[:4])))
            outcome.append('differs')
        else:
            if key is not None:
                memo[key] = 'same'
            outcome.append('same')
    # editions that the complete listing has and the cut removed: asking for
    # them (a script that knows which batch the job writes) is a parser
    # error, not a KeyError / IndexError
    if ref['scan'] == 'ok':
        gone = [b for b in ref['batches'] if b not in batches][:2]
        asks = [('parse_from_number', b) for b in gone]
        if gone:
            asks.append(('parse_from_index', len(batches)))
        for meth, arg in asks:
            stats['asked-for-an-edition-that-is-gone'] = stats.get(
                'asked-for-an-edition-that-is-gone', 0) + 1
            try:
                getattr(parser, meth)(arg)
            except parse.ParserException:
                continue
            except Watchdog:
                raise
            except Exception as exc:  # noqa
                viol.append(('raised', 'parse-raised:%s@%s' % (
                    type(exc).__name__, meth),
                    dict(detail, asked=[meth, arg],
                         editions_found=list(batches),
                         exception=repr(exc)[:160])))
                break
            else:
                viol.append(('differs', 'edition-that-is-gone-parsed',
                             dict(detail, asked=[meth, arg])))
                break
    return viol, '/'.join(outcome) or 'no-editions'


def eval_op_guarded(idx, cut, stats, reparse=False):
    old = signal.signal(signal.SIGALRM, _alarm)
    signal.alarm(OP_WATCHDOG)
    try:
        return eval_op(idx, cut, stats, reparse)
    except Watchdog:
        item = corpus()[idx]
        return [('hang', 'hang', {'listing': item['name'], 'cut': cut,
                                  'watchdog_s': OP_WATCHDOG})], 'hang'
    finally:
        signal.alarm(0)
        signal.signal(signal.SIGALRM, old)


# --------------------------------------------------------------------------
# histories (phase 1)

class Result:
    pass


def key_offsets(item):
    '''Offsets inside the lines the scanner interprets.'''
    cached = item.get('_keyoffs')
    if cached is not None:
        return cached
    data = item['data']
    offs = []
    endflag = []
    pos = 0
    for line in data.split(b'\n'):
        end = pos + len(line) + 1
        try:
            text = line.decode('utf-8', 'ignore')
        except Exception:  # noqa
            text = ''
        if any(k in text for k in KEYWORDS[:3]):
            endflag.extend(range(pos, min(end + 2, len(data) + 1)))
        elif any(k in text for k in KEYWORDS):
            offs.extend(range(pos, min(end + 1, len(data) + 1)))
        pos = end
    if item.get('focus'):
        endflag.extend(range(item['focus'][0],
                             min(item['focus'][1], len(data)) + 1))
    item['_keyoffs'] = (endflag, offs)
    return item['_keyoffs']


def gen_history(rng, fam):
    items = corpus()
    act = active_items()
    nops = rng.randrange(8, 30)
    ops = []
    for _ in range(nops):
        idx = rng.choice(act)
        item = items[idx]
        size = len(item['data'])
        endflag, offs = key_offsets(item)
        roll = rng.random()
        if roll < 0.35 and endflag:
            cut = rng.choice(endflag)
        elif roll < 0.55 and offs:
            cut = rng.choice(offs)
        elif roll < 0.6:
            cut = size
        else:
            cut = rng.randrange(0, size + 1)
        ops.append([item['name'], min(cut, size)])
        other = item.get('twin') or item.get('twin_of')
        if other and not item.get('no_twin_ops') and \
                rng.random() < 0.7 and \
                not items[_STATE['by_name'][other]].get('dropped'):
            # the job was re-run in place and killed at the same point
            ops.append([other, min(cut, size)])
    scn = {'kind': 'listings', 'ops': ops}
    if fam.get('threads'):
        scn['threads'] = True
    return scn


def eval_op_in_thread(idx, cut, stats, reparse=False):
    '''The reader process parses every listing in a thread of its own, one
    after the other (never two at a time), like the worker threads of the
    scheduler do: what an earlier parse left behind (a lock, a cache, a
    thread-local) now belongs to a thread that no longer exists.'''
    import threading
    box = {}

    def work():
        try:
            box['ret'] = eval_op(idx, cut, stats, reparse)
        except BaseException as exc:   # noqa
            box['exc'] = exc

    thread = threading.Thread(target=work, daemon=True)
    thread.start()
    thread.join(OP_WATCHDOG)
    if thread.is_alive():
        item = corpus()[idx]
        return [('hang', 'hang', {'listing': item['name'], 'cut': cut,
                                  'watchdog_s': OP_WATCHDOG,
                                  'in': 'a fresh reader thread'})], 'hang'
    if 'exc' in box:
        raise box['exc']
    return box['ret']


def run_history_here(scn):
    sim = core.NullSim()
    sim.nontrivial = True
    res = Result()
    res.sim = sim
    res.violations = []
    res.facts = {}
    by_name = _STATE['by_name']
    rng = random.Random(len(scn['ops']))
    if _STATE.get('poisoned'):
        # an earlier history of this process ended in a hang: the process
        # state (a lock that is never released) makes every further parse
        # hang as well; do not wait for each of them
        res.violations.append(_STATE['poisoned'])
        return res
    for name, cut in scn['ops']:
        idx = by_name.get(name)
        if idx is None:
            raise driver.HarnessError('unknown listing %s in scenario' % name)
        evaluate = eval_op_in_thread if scn.get('threads') else \
            eval_op_guarded
        viol, outcome = evaluate(idx, cut, res.facts,
                                 reparse=rng.random() < 0.05)
        if outcome == 'hang' and IN_SHARD:
            _STATE['poisoned'] = viol[0]
        sim.event(name, cut, outcome)
        if outcome not in ('scan-error',):
            pass
        res.violations.extend(viol)
        if viol:
            break
    return res


def run_history_fresh(scn):
    '''Evaluate a history in a fresh child process (replay, minimisation).'''
    rfd, wfd = os.pipe()
    pid = os.fork()
    if pid == 0:
        os.close(rfd)
        code = 0
        try:
            _STATE.pop('memo', None)
            _STATE.pop('wdir', None)
            res = run_history_here(scn)
            blob = pickle.dumps({'violations': res.violations,
                                 'facts': res.facts,
                                 'digest': res.sim.digest(),
                                 'steps': res.sim.steps})
            with os.fdopen(wfd, 'wb') as out:
                out.write(blob)
        except BaseException:  # noqa
            traceback.print_exc()
            code = 3
        finally:
            wd = _STATE.get('wdir')
            if wd and _STATE.get('wdir_pid') == os.getpid():
                shutil.rmtree(wd, ignore_errors=True)
            os._exit(code)
    os.close(wfd)
    with os.fdopen(rfd, 'rb') as inp:
        blob = inp.read()
    _pid, status = os.waitpid(pid, 0)
    if status != 0 or not blob:
        raise driver.HarnessError('fresh reader process failed (%s)' % status)
    got = pickle.loads(blob)
    sim = core.NullSim()
    sim.nontrivial = True
    sim.steps = got['steps']
    sim.digest = lambda: got['digest']
    res = Result()
    res.sim = sim
    res.violations = got['violations']
    res.facts = got['facts']
    return res


# --------------------------------------------------------------------------
# enumeration (phase 2)

def enum_shard(shard):
    stats = {}
    out = {'evaluations': 0, 'violations': {}, 'stats': stats,
           'outcomes': {}}
    idx = shard['idx']
    item = corpus()[idx]
    for cut in shard['cuts']:
        viol, outcome = eval_op_guarded(idx, cut, stats)
        out['evaluations'] += 1
        okey = outcome if len(outcome) < 40 else 'many-editions'
        out['outcomes'][okey] = out['outcomes'].get(okey, 0) + 1
        for cls, sig, detail in viol:
            lst = out['violations'].setdefault(sig, [])
            if len(lst) < 2:
                lst.append({'class': cls, 'signature': sig, 'detail': detail,
                            'scenario': {'kind': 'listings',
                                         'ops': [[item['name'], cut]]},
                            'preempts': [], 'digest': None,
                            'seed': shard['seed'], 'run_no': -1,
                            'policy': 'enumeration'})
    return out


def fresh_op(op):
    '''One (listing, crash point) in a reader process that has not parsed
    anything yet.'''
    idx, cut = op
    _STATE.pop('memo', None)
    _STATE.pop('wdir', None)
    stats = {}
    try:
        viol, outcome = eval_op_guarded(idx, cut, stats)
    finally:
        wdir = _STATE.get('wdir')
        if wdir and _STATE.get('wdir_pid') == os.getpid():
            shutil.rmtree(wdir, ignore_errors=True)
    return viol, outcome, stats


def fresh_phase(tier, seed):
    '''Crash points evaluated each in a process of its own, forked from this
    (so far parse-free) process: the first thing a reader does.'''
    rng = random.Random(driver.mix(seed, 0xF4E5))
    items = corpus()
    ops = []
    per = 4 if tier == 'quick' else 40
    for idx in active_items():
        item = items[idx]
        size = len(item['data'])
        endflag, offs = key_offsets(item)
        cuts = {size}
        if endflag:
            cuts.add(min(size, max(endflag) + 1))
        pool = endflag + offs
        while len(cuts) < per:
            cuts.add(rng.choice(pool) if pool and rng.random() < 0.6
                     else rng.randrange(size + 1))
        ops.extend((idx, cut) for cut in sorted(cuts))
    results = driver.fork_each(fresh_op, ops, wall=OP_WATCHDOG + 60)
    out = {'evaluations': len(ops), 'violations': {}, 'stats': {},
           'outcomes': {}}
    for (idx, cut), (viol, outcome, stats) in zip(ops, results):
        okey = outcome if len(outcome) < 40 else 'many-editions'
        out['outcomes'][okey] = out['outcomes'].get(okey, 0) + 1
        for key, val in stats.items():
            out['stats'][key] = out['stats'].get(key, 0) + val
        for cls, sig, detail in viol:
            lst = out['violations'].setdefault(sig, [])
            if len(lst) < 2:
                lst.append({'class': cls, 'signature': sig,
                            'detail': dict(detail, fresh_process=True),
                            'scenario': {'kind': 'listings',
                                         'ops': [[items[idx]['name'], cut]]},
                            'preempts': [], 'digest': None, 'seed': seed,
                            'run_no': -1, 'policy': 'fresh-process'})
    return out


def enumeration(tier, seed):
    fresh = fresh_phase(tier, seed)
    rng = random.Random(driver.mix(seed, 0xE11))
    items = corpus()
    shards = []
    plan = {}
    total_bytes = 0
    for idx in active_items():
        item = items[idx]
        size = len(item['data'])
        total_bytes += size
        if tier == 'thorough':
            cuts = list(range(size + 1))
        else:
            endflag, offs = key_offsets(item)
            cuts = set(endflag)
            light = item.get('light')
            cuts.update(rng.sample(offs, min(len(offs), 20 if light
                                             else 400)))
            cuts.update(rng.randrange(size + 1)
                        for _ in range(20 if light else 300))
            cuts.add(size)
            cuts.add(0)
            cuts = sorted(cuts)
        plan[item['name']] = len(cuts)
        per = 600 if tier == 'quick' else 3000
        for lo in range(0, len(cuts), per):
            shards.append({'idx': idx, 'cuts': cuts[lo:lo + per],
                           'seed': seed})
    rng.shuffle(shards)
    results = driver.run_shards(enum_shard, shards, shard_wall=3000,
                                total_wall=1500 if tier == 'quick'
                                else 5 * 3600)
    out = {'evaluations': 0, 'violations': {}, 'distinct': 0}
    stats, outcomes = {}, {}
    for part in results + [fresh]:
        out['evaluations'] += part['evaluations']
        for key, val in part['stats'].items():
            stats[key] = stats.get(key, 0) + val
        for key, val in part['outcomes'].items():
            outcomes[key] = outcomes.get(key, 0) + val
        for sig, lst in part['violations'].items():
            cur = out['violations'].setdefault(sig, [])
            cur.extend(lst[:max(0, 2 - len(cur))])
    out['distinct'] = out['evaluations']
    out['coverage'] = {
        'crash_points_enumerated': out['evaluations'],
        'crash_points_per_listing': plan,
        'crash_points_in_fresh_processes': fresh['evaluations'],
        'fresh_process_outcomes': fresh['outcomes'],
        'corpus_listings': len(active_items()),
        'corpus_bytes': total_bytes,
        'synthetic_listings_dropped_by_validation': _STATE.get('dropped', []),
        'enumeration_outcomes': outcomes,
        'enumeration_stats': stats,
        'exhaustive': tier == 'thorough',
        'exhaustive_dimension': (
            'every byte offset (0..size) of every corpus listing'
            if tier == 'thorough' else
            'every offset inside the end-flag lines, a seeded sample of the '
            'other scanner key lines and 300 random offsets per listing '
            '(every byte offset in the thorough tier)'),
    }
    return out


# --------------------------------------------------------------------------

class Spec(simcheck.SimSpec):
    prop = 'C11'
    level = 'fault_enumeration'
    runs = {'quick': 1600, 'thorough': 60000}
    shard_runs = 25
    search_tries = 0
    families = [{'label': 'mixed-listings'}, {'label': 'mixed-listings-2'},
                {'label': 'one-reader-thread-per-listing', 'threads': True}]
    rule = ('phase 1: one evaluation = one simulated reader process parsing a '
            'seeded sequence of 8-30 (listing, crash point) pairs drawn over '
            'the whole corpus (Parser(), parse_from_number for every edition '
            'found, parse_from_index(-1)); distinct = distinct digests of the '
            '(listing, offset, outcome) sequence.  phase 2: one evaluation = '
            'one (listing, byte offset) pair, all distinct; outcome classes: '
            'parser error / same results / incomparable (the complete listing '
            'itself raises)')
    assumptions = [
        'crash model: a killed writer leaves a byte prefix of the listing',
        'run_data (warnings, errors, normal end, file name: properties of the '
        'whole file) is compared only for number_of_tasks, required_batches '
        'and initialization_time; a time printed after the end flag of an '
        'edition may be missing on the truncated side but never different',
        'identical (edition text, scan variables) pairs are parsed once per '
        'process and 5% of the repeats are re-parsed',
        'an edition for which the complete listing raises is incomparable',
    ]
    real = ['valjean.eponine.tripoli4.parse / scan / grammar / common / '
            'transform / data_convertor', 'pyparsing', 'numpy',
            'the example listings under tests/ and synthetic 3-edition '
            'listings assembled from them']
    stub = ['the listing writer (a byte prefix is written to a scratch file)',
            'process boundaries: references and replays run in forked fresh '
            'processes']

    def prepare(self):
        build_refs()

    def enter_shard(self):
        global IN_SHARD
        IN_SHARD = os.getpid() != _STATE.get('owner')

    def seams(self):
        return {'listing files': 'scratch copies truncated at the crash point'}

    def gen(self, rng, fam):
        return gen_history(rng, fam)

    def draw_chooser(self, rng, scn):
        return None

    def run(self, scn, chooser):
        if IN_SHARD:
            return run_history_here(scn)
        return run_history_fresh(scn)

    def oracle(self, scn, res):
        return res.violations

    def nontrivial(self, scn, res):
        return True

    def facts(self, scn, res):
        return res.facts

    def describe(self, scn):
        return scn

    def candidates(self, scn):
        ops = scn['ops']
        if len(ops) > 1:
            yield dict(scn, ops=ops[-1:])
            for k in range(len(ops) - 2, -1, -1):
                new = copy.deepcopy(scn)
                del new['ops'][k]
                yield new
        if scn.get('threads'):
            new = copy.deepcopy(scn)
            del new['threads']
            yield new

    def extra(self, tier, seed):
        return enumeration(tier, seed)


SPEC = Spec()


def main(argv):
    return simcheck.main('C11', argv)
