"""C02 -- the outcome of a run depends on the graph and the task results only,
not on the schedule.  Reference model = topological walk of the ground-truth
graph; every scenario is additionally run under several schedules and worker
counts and the status maps are compared."""
from checks import sched, simcheck, c01


class Spec(c01.Spec):
    prop = 'C02'

    def gen(self, rng, fam):
        scn = sched.gen_scenario(rng, family=fam['family'],
                                 calls=fam.get('calls', 1))
        if fam.get('calls', 1) > 1:
            scn['second_env'] = 'fresh'
        return scn

    runs = {'quick': 24000, 'thorough': 1500000}
    families = [{'label': 'well-formed', 'family': 'well'},
                {'label': 'malformed-returns', 'family': 'malformed'},
                {'label': 'unmergeable-updates', 'family': 'unmergeable'},
                {'label': 'tasks-calling-sys-exit', 'family': 'exiting'},
                {'label': 'tasks-echoing-their-entry', 'family': 'echo'},
                # the same Scheduler asked again, from an empty environment:
                # the same outcome again
                {'label': 'scheduled-twice-from-scratch', 'family': 'well',
                 'calls': 2}]
    rule = c01.Spec.rule + ('; the final status map and the per-task '
                            'execution counters are compared with a '
                            'sequential reference model of the graph')

    def oracle(self, scn, res):
        return sched.oracle_c02(scn, res)

    def facts(self, scn, res):
        facts = sched.sched_facts(scn, res)
        if sched.terminated_normally(res) and res.main_exc is None:
            facts['status-maps-compared-with-model'] = 1
            facts['task-statuses-compared'] = len(scn['tasks'])
        return facts


SPEC = Spec()
