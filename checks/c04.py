"""C04 -- re-running a job re-executes exactly the out-of-date tasks.

A *history* is a sequence of runs of one job over one scratch output tree.
Each run is a simulated process (fresh tasks, graphs and Env; the persisted
per-task environments are the only thing that survives), scheduled by the
real queue backend under the thread simulator, through RunCommand.execute on
a job file or through read_env/schedule/write_env directly.  Between runs the
generator loses persisted environments, flips tasks between succeeding and
failing, adds tasks, changes the worker count, and may crash the process
while it writes the environments.  The clock continues across restarts.
"""
import os
import sys
import copy
import shutil
import argparse
import tempfile
import hashlib

from vsim import core, driver, policy, faultfs, load
from vsim.deepeq import deep_diff
from checks import sched, simcheck

CURRENT = {}
FILENAME = 'valjean.env'
JOB_FILE = os.path.join(os.path.dirname(os.path.abspath(__file__)), 'jobs',
                        'verif_c04_job.py')


# --------------------------------------------------------------------------
# generation

def gen_long_chain(rng):
    '''A chain of a few hundred tasks (well below the interpreter's recursion
    limit), run, then run again after the head lost its environment: every
    task is out of date and must be executed again, in order.'''
    ntask = rng.choice((260, 280, 300))
    tasks = [{'name': 't%d' % i, 'kind': 'task', 'hard': [i - 1] if i else [],
              'soft': [], 'dur': 0, 'since': 0, 'echo': False}
             for i in range(ntask)]
    runs = [{'workers': rng.choice((1, 2)), 'via': 'direct',
             'outcome': ['ok'] * ntask, 'lose_env': lost, 'gap': 0.0,
             'plan': []}
            for lost in ([], [rng.choice((0, 0, ntask // 2))])]
    return {'kind': 'history', 'tasks': tasks, 'runs': runs,
            'late_master': False, 'clock_quantum': None, 'root_form': '',
            'salt': rng.randrange(1 << 30), 'tick': 1e-4, 'linemode': False,
            'long_chain': True}


def gen_history(rng, fam):
    if fam.get('rough') and rng.random() < 0.012:
        return gen_long_chain(rng)
    ntask = rng.choice((2, 3, 3, 4, 4, 5, 6, 7))
    shape = rng.choice(('chain', 'chain', 'diamond', 'random', 'random'))
    p_soft = rng.choice((0.0, 0.0, 0.3, 1.0))
    p_edge = rng.choice((0.3, 0.5, 0.8))
    rough = fam.get('rough', False)
    if rough:
        # mixed hard/soft graphs in which much is lost and much fails
        ntask = rng.choice((3, 4, 4, 5, 6))
        shape = 'random'
        p_soft = rng.choice((0.3, 0.5))
        p_edge = rng.choice((0.5, 0.8))
    tasks = []
    for i in range(ntask):
        if shape == 'chain':
            cand = [i - 1] if i else []
        elif shape == 'diamond':
            if i == 0:
                cand = []
            elif i == ntask - 1 and ntask > 2:
                cand = list(range(1, i))
            else:
                cand = [0]
        else:
            cand = [j for j in range(i) if rng.random() < p_edge]
        hard, soft = [], []
        for j in cand:
            (soft if rng.random() < p_soft else hard).append(j)
        tasks.append({'name': 't%d' % i, 'kind': rng.choice(('task', 'pytask')),
                      'hard': hard, 'soft': soft,
                      'dur': rng.choice((0, 0, 1, 5, 30)),
                      'since': 0 if rng.random() < 0.85 else
                      rng.randrange(1, 3)})
    nruns = rng.choice((2, 2, 3, 3, 4, 5))
    runs = []
    p_fail = rng.choice((0.0, 0.1, 0.3)) if not rough else 0.3
    p_lose = rng.choice((0.1, 0.3, 0.5)) if not rough else 0.5
    for r in range(nruns):
        run = {'workers': rng.choice((1, 2, 2, 3, 4)),
               'via': rng.choice(('execute', 'execute', 'direct')),
               'outcome': [rng.choice(('raise', 'failed', 'clobber'))
                           if rng.random() < p_fail else 'ok'
                           for _ in tasks],
               'lose_env': [i for i in range(ntask)
                            if r > 0 and rng.random() < p_lose],
               'gap': rng.choice((0.0, 0.5, 3600.0)),
               'plan': []}
        if 0 < r < nruns - 1 and ntask >= 2 and rng.random() < 0.12:
            # only a part of the job is run this time (the tasks nothing else
            # in that part depends on stay out: indices >= upto)
            run['upto'] = rng.randrange(1, ntask)
        if fam.get('crash') and r < nruns - 1 and rng.random() < 0.3:
            run['plan'] = [{'kind': 'crash', 'file': rng.randrange(0, ntask),
                            'byte': rng.choice((0, 1, 20, 60, 10 ** 6))}]
        runs.append(run)
    for tsk in tasks:
        # a task that hands back a copy of its own entry (status and clocks
        # of its previous run included) along with its new results
        tsk['echo'] = rng.random() < 0.15
    return {'kind': 'history', 'tasks': tasks, 'runs': runs,
            # a coarse wall clock: the end of a task and the start of the next
            # one may carry the same time stamp
            'clock_quantum': rng.choice((None, None, None, 0.01, 0.25)),
            # how the configuration spells the output root (the tasks build
            # their directories with pathlib, which normalises it)
            'root_form': rng.choice(('', '', '', '/', '/.', '//')),
            'late_master': rough or rng.random() < 0.15,
            'salt': rng.randrange(1 << 30),
            'tick': rng.choice(sched.TICKS),
            'linemode': rng.random() < 0.15}


def spelled_root(root, scn):
    form = scn.get('root_form', '')
    if form == '//':
        head, tail = os.path.split(root)
        return head + '//' + tail
    return root + form


def present(scn, r):
    upto = scn['runs'][r].get('upto')
    return [i for i, t in enumerate(scn['tasks'])
            if t['since'] <= r and (upto is None or i < upto)]


# --------------------------------------------------------------------------
# choosers for a history

class HistoryChooser:
    '''Seeded: one freshly drawn policy per run.'''
    name = 'history'

    def __init__(self, rng):
        self.rng = rng
        self.names = []

    def for_run(self, r, scn):
        fake = {'tasks': scn['tasks'], 'workers': scn['runs'][r]['workers'],
                'linemode': scn.get('linemode')}
        if scn.get('late_master') and r > 0 and self.rng.random() < 0.6:
            # the master is held up somewhere in its first pass over the
            # tasks while the workers finish what it has queued so far
            rng = self.rng
            base = policy.RandomWalk(rng, rng.choice((0.0, 0.02, 0.1)))
            chooser = policy.Stall(rng, base, [{
                'at': 'tstep', 'tid': 0,
                'n': rng.randrange(0, 25 + 12 * len(scn['tasks'])),
                'dur': rng.choice((300, 1500, 6000))}])
            chooser.name = 'stall-master'
        else:
            chooser = sched.draw_chooser(self.rng, fake)
        self.names.append(chooser.name)
        return chooser

    def describe(self):
        return {'policy': 'one drawn per run', 'drawn': self.names}


class AggSim:
    '''Aggregates the simulated processes of one history.'''

    def __init__(self):
        self.hasher = hashlib.blake2b(digest_size=12)
        self.steps = 0
        self.switches = 0
        self.preempts = []
        self.ndecisions = 0
        self.zombies = 0
        self.probe_hits = {}
        self.unsupported = None
        self.outcome = ('ok', None)
        self.max_runnable = 1
        self.clock = 0.0
        self.t0 = 0.0

    def add(self, r, sim):
        self.hasher.update(sim.digest().encode())
        self.steps += sim.steps
        self.switches += sim.switches
        self.ndecisions += sim.ndecisions
        self.zombies += sim.zombies
        self.preempts.extend((r,) + tuple(p) for p in sim.preempts)
        self.max_runnable = max(self.max_runnable, sim.max_runnable)
        self.clock += sim.clock - sim.t0
        for key, val in sim.probe_hits.items():
            self.probe_hits[key] = self.probe_hits.get(key, 0) + val
        if sim.unsupported:
            self.unsupported = sim.unsupported
        if sim.outcome is None or sim.outcome[0] != 'ok':
            self.outcome = sim.outcome or ('none', None)

    def digest(self):
        return self.hasher.hexdigest()

    def hit(self, name, n=1):
        self.probe_hits[name] = self.probe_hits.get(name, 0) + n


# --------------------------------------------------------------------------
# the job of one run

class ProbeError(Exception):
    pass


def make_tasks_factory(scn, r, root, mods, log, counter):
    task_mod, py_mod = mods['task'], mods['pythontask']
    status_enum = task_mod.TaskStatus
    specs = scn['tasks']
    run = scn['runs'][r]
    here = present(scn, r)
    # hash (hence set order in close_dependency_graph / build_graphs) and
    # node order of the graphs: a seeded permutation, not the topological
    # numbering of the generator
    rank = sched.node_order(scn)

    def body(i, env):
        sim = core.cur_sim()
        counter['seq'] += 1
        counter['exec'] += 1
        exec_id = counter['exec']
        rec = {'task': i, 'run': r, 'id': exec_id, 'enter_seq': counter['seq'],
               'enter_clock': sim.clock, 'exit_seq': None, 'exit_clock': None}
        log.append(rec)
        sim.mark('do-enter', i)
        dur = specs[i]['dur']
        if dur:
            sim.sleep(dur * sim.tick, 'work')
        else:
            sim.yield_point('work')
        sim.mark('do-exit', i)
        counter['seq'] += 1
        rec['exit_seq'] = counter['seq']
        rec['exit_clock'] = sim.clock
        out = run['outcome'][i]
        if out == 'raise':
            if exec_id % 3 == 0:
                # an exception that carries what it was working on (an open
                # handle: something that cannot be pickled)
                raise ProbeError('scripted failure', sched.HANDLE)
            raise ProbeError('scripted failure')
        # like the real tasks: <output-root of the configuration>/<name>,
        # through pathlib
        from pathlib import Path
        outdir = str(Path(spelled_root(root, scn), specs[i]['name']))
        os.makedirs(outdir, exist_ok=True)
        mine = {}
        if specs[i].get('echo'):
            try:
                mine = dict(env[specs[i]['name']])
            except (KeyError, TypeError):
                mine = {}
        mine.update({
            'result': 'res:%d:%d' % (i, exec_id), 'exec_id': exec_id,
            'output_dir': outdir,
            'payload': {'run': r, 'deep': {'x': [exec_id, i]}}})
        cls = CURRENT.get('job_result_class')
        if run['via'] == 'execute' and cls is not None:
            # a result whose class is defined in the job file
            mine['job_result'] = cls(exec_id)
        upd = {specs[i]['name']: mine}
        if out == 'failed':
            return upd, status_enum.FAILED
        if out == 'clobber':
            # an update that cannot be merged: the task fails
            return {specs[i]['name']: 'text'}, status_enum.DONE
        return upd, status_enum.DONE

    class ProbeTask(task_mod.Task):
        def __init__(self, idx, name):
            super().__init__(name)
            self.idx = idx

        def __hash__(self):
            return rank[self.idx]

        def __eq__(self, other):
            return self is other

        def do(self, env, config):
            return body(self.idx, env)

    class ProbePyTask(py_mod.PythonTask):
        def __init__(self, idx, name):
            super().__init__(name, self._func, env_kwarg='env')
            self.idx = idx

        def __hash__(self):
            return rank[self.idx]

        def __eq__(self, other):
            return self is other

        def _func(self, env):
            return body(self.idx, env)

    def make():
        objs = {}
        for i in here:
            cls = ProbeTask if specs[i]['kind'] == 'task' else ProbePyTask
            objs[i] = cls(i, specs[i]['name'])
        for i in here:
            objs[i].depends_on.update(objs[j] for j in specs[i]['hard']
                                      if j in objs)
            objs[i].soft_depends_on.update(objs[j] for j in specs[i]['soft']
                                           if j in objs)
        # the job returns only the tasks nobody depends on (plus a random
        # extra): collect_tasks() has to close the graph
        needed = set()
        for i in here:
            needed.update(j for j in specs[i]['hard'] + specs[i]['soft']
                          if j in objs)
        tops = [objs[i] for i in here if i not in needed]
        return tops or [objs[i] for i in here]
    return make


def snapshot(env, scn, here):
    snap = {}
    dct = getattr(env, 'dictionary', None)
    if dct is None:
        dct = dict(env)
    for i in here:
        ent = dct.get(scn['tasks'][i]['name'])
        if isinstance(ent, dict):
            snap[i] = {}
            for key, val in ent.items():
                try:
                    snap[i][key] = copy.deepcopy(val)
                except Exception:   # noqa  (whatever the code left there)
                    snap[i][key] = '<%s that cannot be copied>' \
                        % type(val).__name__
            if 'status' in snap[i]:
                snap[i]['status'] = sched.status_name(snap[i]['status'])
    return snap


class Result:
    pass


def run_history(scn, chooser):
    mods = load.load_sim()
    root = tempfile.mkdtemp(prefix='c04-', dir=driver.scratch_root())
    agg = AggSim()
    res = Result()
    res.sim = agg
    res.violations = []
    res.facts = {}
    res.crashed_runs = set()
    log = []
    counter = {'seq': 0, 'exec': 0}
    clock = 1.0e6
    prev = None     # what the previous run left, if it completed
    try:
        for r, run in enumerate(scn['runs']):
            here = present(scn, r)
            names = [scn['tasks'][i]['name'] for i in here]
            for i in run['lose_env']:
                path = os.path.join(root, scn['tasks'][i]['name'], FILENAME)
                if os.path.exists(path):
                    os.unlink(path)
                    _fact(res, 'persisted-env-lost')
            try:
                init_env = mods['common'].read_env(
                    root=root, names=names, filename=FILENAME, fmt='pickle')
            except Exception as exc:   # noqa: a run that cannot even start
                res.violations.append((
                    'run-raised', 'run-raised:%s' % type(exc).__name__,
                    {'run': r, 'where': 'read_env',
                     'exception': repr(exc)[:300]}))
                break
            init = snapshot(init_env, scn, here)
            if prev is not None:
                carried_over(scn, r, here, run['lose_env'], prev, init, res)
                if res.violations:
                    break
            prev = None
            sub = chooser.for_run(r, scn)
            lf = load.line_files(mods) if scn.get('linemode') else None
            sim = core.Sim(sub, tick=scn['tick'], t0=clock, line_files=lf,
                           keep_trace=False,
                           max_steps=8000000 if scn.get('long_chain')
                           else 200000)
            sim.clock_quantum = scn.get('clock_quantum')
            CURRENT['make'] = make_tasks_factory(scn, r, root, mods, log,
                                                 counter)
            holder = {}

            def main():
                config = mods['config'].Config({'path': {
                    'output-root': spelled_root(root, scn),
                    'log-root': root + '-log',
                    'report-root': root + '-report'}})
                if run['via'] == 'execute':
                    args = argparse.Namespace(
                        job_file=JOB_FILE, job_args=[], job_kwargs={},
                        workers=run['workers'], env_filename=FILENAME,
                        env_format='pickle')
                    env = mods['cmdrun'].RunCommand().execute(args, config)
                else:
                    tasks = mods['task'].close_dependency_graph(
                        CURRENT['make']())
                    rank = sched.node_order(scn)
                    tasks.sort(key=lambda t: rank[t.idx])
                    dgr = mods['depgraph'].DepGraph
                    hard, soft = dgr(), dgr()
                    for tsk in tasks:
                        hard.add_node(tsk)
                        soft.add_node(tsk)
                    for tsk in tasks:
                        for dep in sorted(tsk.depends_on,
                                          key=lambda t: rank[t.idx]):
                            hard.add_dependency(tsk, on=dep)
                        for dep in sorted(tsk.soft_depends_on,
                                          key=lambda t: rank[t.idx]):
                            soft.add_dependency(tsk, on=dep)
                    env0 = mods['common'].read_env(
                        root=root, names=[t.name for t in tasks],
                        filename=FILENAME, fmt='pickle')
                    env = mods['cmdrun'].schedule(
                        hard_graph=hard, soft_graph=soft, env=env0,
                        config=config, workers=run['workers'])
                    holder['env'] = env
                    mods['common'].write_env(env, filename=FILENAME,
                                             fmt='pickle')
                holder['env'] = env
                return env

            fs = faultfs.FaultFS(root, run.get('plan', []))
            with faultfs.active(fs):
                outcome = sim.run(main)
            # the next run starts a moment later (a moment that the clock
            # can resolve: two ticks of a coarse clock)
            clock = sim.clock + run.get('gap', 0.0) + \
                max(0.002, 2 * (scn.get('clock_quantum') or 0))
            agg.add(r, sim)
            for flt in fs.fired_log:
                _fact(res, 'fault-fired:crash-during-write_env')
            _fact(res, 'runs')
            _fact(res, 'runs-via-' + run['via'])
            crashed = isinstance(sim.main_exc, core.SimCrash)
            if outcome is None or outcome[0] != 'ok':
                res.violations.append((
                    'run-did-not-finish',
                    'run-did-not-finish:%s' % (outcome[0] if outcome
                                               else 'none'),
                    {'run': r, 'alive': [(t.tid, t.name, t.state,
                                          t.waiting_on)
                                         for t in sim.threads
                                         if t.state != 'D']}))
                break
            if sim.main_exc is not None and not crashed:
                res.violations.append((
                    'run-raised', 'run-raised:%s'
                    % type(sim.main_exc).__name__,
                    {'run': r, 'exception': repr(sim.main_exc)[:300]}))
                break
            if crashed:
                _fact(res, 'runs-crashed-while-writing')
                res.crashed_runs.add(r)
                continue
            final = snapshot(holder['env'], scn, here)
            prev = final
            judge(scn, r, here, init, final, log, res)
            if res.violations:
                break
    finally:
        CURRENT.clear()
        shutil.rmtree(root, ignore_errors=True)
        shutil.rmtree(root + '-log', ignore_errors=True)
    res.log = log
    return res


def _fact(res, name, n=1):
    res.facts[name] = res.facts.get(name, 0) + n


def transitive(scn, i, here):
    seen = set()
    todo = [i]
    while todo:
        cur = todo.pop()
        for j in scn['tasks'][cur]['hard'] + scn['tasks'][cur]['soft']:
            if j in here and j not in seen:
                seen.add(j)
                todo.append(j)
    return seen


def carried_over(scn, r, here, lost, prev, init, res):
    '''What a completed run reported and persisted is what the next run
    starts from: DONE entries identical, anything else absent.'''
    specs = scn['tasks']
    for i in here:
        ent = prev.get(i)
        if i in lost or not ent:
            continue
        got = init.get(i)
        if ent.get('status') == 'DONE':
            if 'output_dir' not in ent:
                continue
            _fact(res, 'judged-carried-over-entries')
            if got is None:
                res.violations.append((
                    'carry-over', 'done-entry-not-carried-over',
                    {'run': r, 'task': specs[i]['name']}))
                return
            diff = deep_diff(got, ent)
            if diff:
                res.violations.append((
                    'carry-over', 'carried-over-entry-changed',
                    {'run': r, 'task': specs[i]['name'], 'diff': diff[:4]}))
                return
        elif got is not None:
            res.violations.append((
                'carry-over', 'entry-that-was-not-done-carried-over',
                {'run': r, 'task': specs[i]['name'],
                 'status_persisted': ent.get('status'),
                 'status_read': got.get('status')}))
            return


def judge(scn, r, here, init, final, log, res):
    specs = scn['tasks']
    hereset = set(here)
    by_id = {rec['id']: rec for rec in log}
    executed_now = {}
    for rec in log:
        if rec['run'] == r:
            executed_now[rec['task']] = executed_now.get(rec['task'], 0) + 1

    def producer(snap, i):
        ent = snap.get(i)
        if not ent:
            return None
        return by_id.get(ent.get('exec_id'))

    for i in here:
        ent = final.get(i)
        stat = ent.get('status') if ent else None
        if stat not in ('DONE', 'FAILED', 'SKIPPED'):
            res.violations.append((
                'not-final', 'task-not-final:%s' % stat,
                {'run': r, 'task': specs[i]['name'], 'status': stat}))
            return
        if executed_now.get(i, 0) > 1:
            res.violations.append((
                'executed-twice', 'executed-twice-in-one-run',
                {'run': r, 'task': specs[i]['name'],
                 'count': executed_now[i]}))
            return
    # (a) DONE tasks are newer than their DONE dependencies
    # last execution of every task in a run that went through to the end (a
    # run that crashed while writing the environments may or may not have
    # persisted what it executed: old or new, both are right)
    latest = {}
    for rec in log:
        if rec['run'] not in res.crashed_runs:
            latest[rec['task']] = rec['id']
    for i in here:
        if final[i]['status'] != 'DONE':
            continue
        _fact(res, 'judged-done-tasks')
        prod_t = producer(final, i)
        if prod_t is None:
            res.violations.append((
                'done-without-execution', 'done-without-execution',
                {'run': r, 'task': specs[i]['name']}))
            return
        if prod_t['id'] < latest.get(i, 0):
            # the task has been executed again since, and that execution did
            # not end DONE: its old results are not its results any more
            res.violations.append((
                'superseded', 'done-with-the-results-of-a-superseded-execution',
                {'run': r, 'task': specs[i]['name'],
                 'results_from_run': prod_t['run'],
                 'last_executed_in_run': by_id[latest[i]]['run']}))
            return
        for j in specs[i]['hard']:
            if j in hereset and final[j]['status'] in ('FAILED', 'SKIPPED'):
                res.violations.append((
                    'done-with-failed-hard-dep',
                    'done-with-%s-hard-dependency' % final[j]['status'],
                    {'run': r, 'task': specs[i]['name'],
                     'dep': specs[j]['name'],
                     'executed_in_this_run': bool(executed_now.get(i))}))
                return
        for j in specs[i]['hard'] + specs[i]['soft']:
            if j not in hereset or final[j]['status'] != 'DONE':
                continue
            prod_d = producer(final, j)
            if prod_d is None:
                continue
            _fact(res, 'judged-done-dependency-pairs')
            if not prod_d['exit_seq'] < prod_t['enter_seq']:
                res.violations.append((
                    'stale-done', 'stale-done',
                    {'run': r, 'task': specs[i]['name'],
                     'dep': specs[j]['name'],
                     'task_result_from_run': prod_t['run'],
                     'dep_result_from_run': prod_d['run']}))
                return
            endc = final[j].get('end_clock')
            startc = final[i].get('start_clock')
            if endc is None or startc is None or not endc <= startc:
                res.violations.append((
                    'clocks', 'recorded-clocks-inconsistent',
                    {'run': r, 'task': specs[i]['name'],
                     'dep': specs[j]['name'], 'dep_end_clock': endc,
                     'task_start_clock': startc}))
                return
    # (b) up-to-date DONE tasks are left alone
    for i in here:
        ent = init.get(i)
        if not ent or ent.get('status') != 'DONE':
            continue
        trans = transitive(scn, i, hereset)
        if any(init.get(j, {}).get('status') != 'DONE' for j in trans):
            continue
        if any(executed_now.get(j) for j in trans):
            continue
        uptodate = True
        for k in [i] + sorted(trans):
            for j in specs[k]['hard'] + specs[k]['soft']:
                if j not in hereset:
                    continue
                endc = init[j].get('end_clock')
                startc = init[k].get('start_clock')
                if endc is None or startc is None or not endc <= startc:
                    uptodate = False
        if not uptodate:
            _fact(res, 'initially-stale-by-recorded-clocks')
            continue
        _fact(res, 'judged-up-to-date-tasks')
        if executed_now.get(i):
            res.violations.append((
                'needless-rerun', 'up-to-date-task-executed-again',
                {'run': r, 'task': specs[i]['name']}))
            return
        diff = deep_diff(final.get(i), ent)
        if diff:
            res.violations.append((
                'entry-changed', 'up-to-date-entry-changed',
                {'run': r, 'task': specs[i]['name'], 'diff': diff[:4]}))
            return


def shrink(scn):
    nruns = len(scn['runs'])
    if nruns > 1:
        for r in range(nruns - 1, -1, -1):
            new = copy.deepcopy(scn)
            del new['runs'][r]
            if r == 0:
                new['runs'][0]['lose_env'] = []
            yield new
    ntask = len(scn['tasks'])
    if ntask > 1:
        for k in range(ntask - 1, -1, -1):
            new = copy.deepcopy(scn)
            del new['tasks'][k]
            for tsk in new['tasks']:
                for key in ('hard', 'soft'):
                    tsk[key] = [j - 1 if j > k else j for j in tsk[key]
                                if j != k]
            for run in new['runs']:
                if run.get('upto') is not None and run['upto'] > k:
                    run['upto'] = max(1, run['upto'] - 1)
                del run['outcome'][k]
                run['lose_env'] = [j - 1 if j > k else j
                                   for j in run['lose_env'] if j != k]
            yield new
    if scn.get('linemode'):
        new = copy.deepcopy(scn)
        new['linemode'] = False
        yield new
    if scn.get('clock_quantum'):
        new = copy.deepcopy(scn)
        new['clock_quantum'] = None
        yield new
    if scn.get('root_form'):
        new = copy.deepcopy(scn)
        new['root_form'] = ''
        yield new
    for r, run in enumerate(scn['runs']):
        if run['workers'] > 1:
            new = copy.deepcopy(scn)
            new['runs'][r]['workers'] -= 1
            yield new
        if run['plan']:
            new = copy.deepcopy(scn)
            new['runs'][r]['plan'] = []
            yield new
        if run['via'] != 'direct':
            new = copy.deepcopy(scn)
            new['runs'][r]['via'] = 'direct'
            yield new
        if run.get('gap'):
            new = copy.deepcopy(scn)
            new['runs'][r]['gap'] = 0.0
            yield new
        if run.get('upto') is not None:
            new = copy.deepcopy(scn)
            del new['runs'][r]['upto']
            yield new
        for i in run['lose_env']:
            new = copy.deepcopy(scn)
            new['runs'][r]['lose_env'].remove(i)
            yield new
        for i, out in enumerate(run['outcome']):
            if out != 'ok':
                new = copy.deepcopy(scn)
                new['runs'][r]['outcome'][i] = 'ok'
                yield new
    for i, tsk in enumerate(scn['tasks']):
        for key in ('hard', 'soft'):
            for j in tsk[key]:
                new = copy.deepcopy(scn)
                new['tasks'][i][key].remove(j)
                yield new
        for field, plain in (('dur', 0), ('kind', 'task'), ('since', 0),
                             ('echo', False)):
            if tsk.get(field, plain) != plain:
                new = copy.deepcopy(scn)
                new['tasks'][i][field] = plain
                yield new


class Spec(simcheck.SimSpec):
    prop = 'C04'
    level = 'exploration'
    runs = {'quick': 36000, 'thorough': 600000}
    shard_runs = 100
    families = [{'label': 'histories'}, {'label': 'histories-rough',
                                         'rough': True},
                {'label': 'histories-with-crashes', 'crash': True}]
    rule = ('one evaluation = one history of 2-5 runs of one job (2-7 probe '
            'tasks, chains / diamonds / random hard+soft graphs, tasks added '
            'in later runs) over one scratch output tree; every run is a '
            'simulated process scheduled by the real queue backend under a '
            'freshly drawn seeded policy, through RunCommand.execute on a job '
            'file or read_env/schedule/write_env; between runs persisted '
            'environments are lost, tasks flip between success and failure, '
            'worker counts change, and a run may crash while writing the '
            'environments; the clock continues across restarts; non-trivial = '
            'two threads runnable at some decision; distinct = distinct '
            'digests of the concatenated event traces')
    assumptions = list(simcheck.SimSpec.assumptions) + [
        'time.time() is strictly increasing inside a run and across the runs '
        'of a history (no backward clock jumps are injected: the property '
        'does not quantify over them)',
        'which execution produced a reported DONE entry is identified by an '
        'execution id that the probe puts into its update',
    ]
    real = ['valjean.cambronne.commands.run (RunCommand.execute, schedule)',
            'valjean.cambronne.common (build_graphs, collect_tasks, read_env, '
            'write_env)', 'valjean.dyn_import', 'valjean.cosette.backends.'
            'queue', 'valjean.cosette.env', 'valjean.cosette.scheduler',
            'valjean.cosette.depgraph', 'valjean.cosette.task', 'pickle',
            'the real file system (scratch tree)']
    stub = ['threading / time / queue (simulator)', 'probe tasks',
            'open() wrapped by the fault seam (crash while writing the '
            'environments)']

    def prepare(self):
        load.load_sim()
        faultfs.install()

    def enter_shard(self):
        if not faultfs.installed():
            faultfs.install()

    def gen(self, rng, fam):
        return gen_history(rng, fam)

    def draw_chooser(self, rng, scn):
        return HistoryChooser(rng)

    def run(self, scn, chooser):
        return run_history(scn, chooser)

    def oracle(self, scn, res):
        return res.violations

    def candidates(self, scn):
        return shrink(scn)

    def facts(self, scn, res):
        return res.facts


SPEC = Spec()
