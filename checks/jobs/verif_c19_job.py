"""Job file used by the C19 check: the tasks of the current case are created
by the harness (fresh objects every time)."""


def job(case):
    from checks import c19
    return c19.CURRENT['make'](int(case))
