"""Job file used by the C04 check: the tasks of the current simulated run are
created (fresh objects every time) by the harness."""


class JobResult:
    """What a job file typically defines for its own results: persisting it
    needs the job module to be importable under its own name."""

    def __init__(self, value):
        self.value = value

    def __eq__(self, other):
        return isinstance(other, JobResult) and other.value == self.value

    def __hash__(self):
        return hash(self.value)


def job():
    from checks import c04
    c04.CURRENT['job_result_class'] = JobResult
    return c04.CURRENT['make']()
