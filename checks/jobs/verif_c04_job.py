"""Job file used by the C04 check: the tasks of the current simulated run are
created (fresh objects every time) by the harness."""


def job():
    from checks import c04
    return c04.CURRENT['make']()
