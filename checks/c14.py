"""C14 -- persisted environments survive crashes.

Two phases:
 * histories (seeded): write_env / crash-during-write / I/O errors / direct
   damage / restart / read_env against a small reference model of the files;
 * enumeration: for every environment file produced from the sampled payloads,
   EVERY proper prefix (plus empty / NUL-filled / directory) is read back.
"""
import os
import copy
import pickle
import random
import shutil
import tempfile

from vsim import core, driver, faultfs, load
from vsim.deepeq import deep_diff
from checks import simcheck

FILENAME = 'valjean.env'
STATUSES = ('WAITING', 'PENDING', 'DONE', 'FAILED', 'SKIPPED')
NAMES = ('alpha', 'b eta', 'gämma', 'delta.d', '-eps', 'zeta_0', 'Eta',
         # names that mean something to glob()
         '.iota', 'we[i]rd', 'st*r', 'wh?t',
         'th.eta.long-name-with-many-characters-0123456789',
         # a name with a directory part: the output directory is nested
         'grp/nested')
_MODS = {}


def mods():
    if not _MODS:
        names = ['valjean.cosette.env', 'valjean.cambronne.common',
                 'valjean.cosette.task', 'valjean.eponine.dataset']
        got = load.load_plain(names)
        _MODS.update(env=got[0], common=got[1], task=got[2], dataset=got[3])
    return _MODS


# --------------------------------------------------------------------------
# payloads

def _safe_repr(obj):
    try:
        return repr(obj)
    except Exception as exc:   # noqa
        return '<unprintable: %s>' % type(exc).__name__


class Grumpy:
    '''A perfectly picklable payload that does not like to be printed (its
    repr needs an attribute that is not part of its pickled state).'''
    VERIF_COMPARE_WITH_EQ = True

    def __init__(self, value):
        self.value = value
        self._label = 'grumpy'

    def __getstate__(self):
        return {'value': self.value}

    def __repr__(self):
        return '<%s %r>' % (self._label, self.value)

    def __eq__(self, other):
        return isinstance(other, Grumpy) and other.value == self.value

    def __hash__(self):
        return hash(self.value)


def gen_value(rng, depth, size):
    import numpy as np
    if rng.random() < 0.03:
        return Grumpy(rng.randrange(1000))
    kind = rng.randrange(14 if depth > 0 else 9)
    if kind == 0:
        return rng.randrange(-10 ** 9, 10 ** 9)
    if kind == 1:
        return rng.choice((0.0, -1.5, 1e300, float('inf'), float('nan'),
                           rng.random()))
    if kind == 2:
        return ''.join(rng.choice('abc é\n.\\0') for _ in
                       range(rng.randrange(0, 4 + size)))
    if kind == 3:
        return bytes(rng.randrange(256) for _ in range(rng.randrange(0, 6 + size)))
    if kind == 4:
        return rng.choice((None, True, False))
    if kind == 5:
        return mods()['task'].TaskStatus[rng.choice(STATUSES)]
    if kind == 6:
        shape = tuple(rng.randrange(1, 4) for _ in range(rng.randrange(1, 4)))
        arr = np.arange(int(np.prod(shape)), dtype=rng.choice(
            ('float64', 'int32', 'float32'))).reshape(shape)
        return arr * rng.choice((1, -2, 3))
    if kind == 7:
        nbin = rng.randrange(1, 5)
        val = np.array([rng.random() for _ in range(nbin)])
        err = np.array([rng.random() for _ in range(nbin)])
        from collections import OrderedDict
        bins = OrderedDict([('e', np.arange(nbin + 1, dtype=float))])
        return mods()['dataset'].Dataset(val, err, bins=bins,
                                         name='ds%d' % rng.randrange(100),
                                         what='flux')
    if kind == 8:
        return '/some/path/%d' % rng.randrange(1000)
    if kind == 9:
        return [gen_value(rng, depth - 1, size)
                for _ in range(rng.randrange(0, 4))]
    if kind == 10:
        return tuple(gen_value(rng, depth - 1, size)
                     for _ in range(rng.randrange(0, 3)))
    if kind == 11:
        return {rng.choice(('k%d' % i, 'key %d' % i, i, (i, 'x'))):
                gen_value(rng, depth - 1, size)
                for i in range(rng.randrange(0, 4))}
    if kind == 12:
        return frozenset(rng.randrange(50) for _ in range(rng.randrange(4)))
    return {'nested': {'deeper': gen_value(rng, depth - 1, size)}}


# Unreadable content that is not a prefix of anything written: text, a
# foreign format, short random bytes.  Opcodes that build objects (GLOBAL,
# STACK_GLOBAL, REDUCE, NEWOBJ(_EX), INST, OBJ, BUILD) and the out-of-band
# buffer opcodes (BYTEARRAY8, NEXT_BUFFER, READONLY_BUFFER) are left out of the
# random bytes: a corrupted numpy pickle can crash the interpreter, which no
# reader can turn into "not done" (observed with single flipped bytes; see
# DESIGN.md) -- flipped bytes of valid pickles are therefore not injected.
JUNK = (b'# valjean environment\nstatus: DONE\n', b'{"status": "DONE"}',
        b'\x80\x04\x8e\xff\xff\xff\xff\xff\xff\xff\x7f', b'K\x01.',
        b'\x80\x04\x95\xff\xff\xff\xff\xff\xff\xff\x7f}.', b'}.', b']q\x00.',
        b'\x80\x04}\x94\x8c\x06status\x94K\x03s.', b'\x00\xff' * 40,
        b'\x80\x04X\xff\xff\xff\x7fabc.', b'(lp0\nI1\naI2\na.')
_NO_OBJECTS = bytes(b for b in range(256)
                    if b not in b'c\x93R\x81\x92iob\x96\x97\x98')


def odd_env_bytes(k):
    '''A valid pickle of the environment class itself whose state is not
    what this version of the class expects (the file of another version of
    valjean in a long-lived output tree): right class, wrong contents.'''
    env_mod = mods()['env']
    obj = env_mod.Env()
    k %= 5
    if k == 0:
        del obj.__dict__['dictionary']
    elif k == 1:
        obj.__dict__['dictionary'] = None
    elif k == 2:
        obj.__dict__['dictionary'] = [('task', {'status': 'DONE'})]
    elif k == 3:
        del obj.__dict__['dictionary']
        obj.__dict__['data'] = {'task': {}}
    else:
        obj.__dict__['dictionary'] = 'DONE'
    return pickle.dumps(obj)


def junk_bytes(seed):
    rng = random.Random(seed)
    pick = rng.random()
    if pick < 0.4:
        return JUNK[rng.randrange(len(JUNK))]
    if pick < 0.55:
        return odd_env_bytes(rng.randrange(5))
    return bytes(rng.choice(_NO_OBJECTS)
                 for _ in range(rng.randrange(1, 80)))


ELSEWHERE = '_reports'
ELSEWHERE_SIG = 'done-entry-not-read-back:output_dir-is-not-root/name'


def outdir_of(tspec, root):
    '''Most tasks write into <output-root>/<name>; some (report tasks) have
    their output directory elsewhere.'''
    if tspec.get('elsewhere'):
        return os.path.join(root, ELSEWHERE, tspec['name'])
    return os.path.join(root, tspec['name'])


def gen_entry(tspec, version, status, root):
    '''The environment entry of a task at a given version (deterministic).'''
    import numpy as np
    rng = random.Random(driver.mix(tspec['payload_seed'], version))
    ent = {'status': mods()['task'].TaskStatus[status]}
    if tspec['has_outdir']:
        ent['output_dir'] = outdir_of(tspec, root)
    ent['version'] = version
    ent['start_clock'] = 1000.0 + version
    ent['end_clock'] = 1000.5 + version
    for i in range(tspec['nkeys']):
        ent['k%d' % i] = gen_value(rng, 3, tspec['size'])
    if tspec.get('big'):
        # > 64 KiB: several pickle frames
        ent['big'] = np.arange(tspec['big'], dtype='float64') * 0.5
        ent['bigtext'] = ['line %d of the listing' % i
                          for i in range(tspec['big'] // 8)]
    return ent


# --------------------------------------------------------------------------
# history generation

def gen_history(rng, fam):
    ntask = rng.choice((1, 2, 2, 3, 4, 5))
    names = rng.sample(NAMES, ntask)
    tasks = []
    for name in names:
        tasks.append({'name': name, 'payload_seed': rng.randrange(10 ** 9),
                      'nkeys': rng.randrange(0, 5), 'size': rng.choice((0, 4, 40)),
                      'has_outdir': rng.random() < 0.85,
                      'elsewhere': rng.random() < 0.06,
                      'big': rng.choice((0, 0, 0, 0, 9000))})
    faulty = fam.get('faults', True)
    ops = []
    version = 0
    nops = rng.randrange(2, 9)
    for _ in range(nops):
        roll = rng.random()
        if roll < 0.4 or not ops:
            version += 1
            op = {'op': 'write', 'version': version,
                  'statuses': [rng.choice(('DONE', 'DONE', 'DONE', 'FAILED',
                                           'SKIPPED', 'WAITING', 'PENDING'))
                               for _ in tasks],
                  'present': [rng.random() < 0.9 for _ in tasks],
                  'plan': []}
            if rng.random() < 0.25:
                op['extras'] = [[rng.randrange(ntask), rng.choice(
                    ('scalar', 'text', 'area', 'outdir-none', 'list',
                     'outdir-nul', 'tuple-key', 'int-key'))]
                    for _ in range(rng.choice((1, 1, 2)))]
            if faulty and rng.random() < 0.6:
                kind = rng.choice(('crash', 'crash', 'eio', 'open-fail'))
                flt = {'kind': kind, 'file': rng.randrange(0, ntask)}
                if kind == 'open-fail':
                    flt['errno'] = rng.choice(('EACCES', 'ENOSPC', 'EMFILE',
                                               'EROFS'))
                    flt['side'] = 'w'
                else:
                    flt['frac'] = rng.choice((0.0, rng.random(), rng.random(),
                                              0.999, 1.0))
                    if kind == 'eio':
                        flt['errno'] = rng.choice(('EIO', 'ENOSPC'))
                op['plan'].append(flt)
            ops.append(op)
        elif roll < 0.7:
            op = {'op': 'read', 'plan': [],
                  'order': rng.sample(range(ntask), ntask),
                  'extra_missing_name': rng.random() < 0.3}
            if faulty and rng.random() < 0.3:
                kind = rng.choice(('read-eio', 'open-fail'))
                flt = {'kind': kind, 'file': rng.randrange(0, ntask)}
                if kind == 'open-fail':
                    flt['errno'] = rng.choice(('EACCES', 'EMFILE', 'EIO'))
                    flt['side'] = 'r'
                else:
                    flt['frac'] = rng.random()
                op['plan'].append(flt)
            ops.append(op)
        elif roll < 0.9 and faulty:
            ops.append({'op': 'damage', 'task': rng.randrange(ntask),
                        'how': rng.choice(('delete', 'empty', 'truncate',
                                           'truncate', 'nul', 'dir',
                                           'garbage', 'foreign')),
                        'frac': rng.random(),
                        'junk': rng.randrange(1 << 30)})
        else:
            ops.append({'op': 'whole', 'version': version + 1,
                        'cut': rng.choice((None, None, rng.random()))
                        if faulty else None})
            version += 1
    ops.append({'op': 'read', 'plan': [], 'order': list(range(ntask)),
                'extra_missing_name': False})
    return {'kind': 'envhist', 'tasks': tasks, 'ops': ops,
            # a file system whose time stamps do not tell two versions of a
            # file apart (FAT: 2 s; a restore that keeps the time stamps)
            'frozen_mtime': rng.random() < 0.3}


# --------------------------------------------------------------------------
# executing a history

class Result:
    pass


def _blob(env_mod, name, entry):
    return pickle.dumps(env_mod.Env({name: entry}))


def run_history(scn):
    sim = core.NullSim()
    res = Result()
    res.sim = sim
    res.violations = []
    res.facts = {}
    root = tempfile.mkdtemp(prefix='c14-', dir=driver.scratch_root())
    try:
        with driver.watchdog(WATCHDOG):
            _run_history(scn, sim, res, root)
    except driver.RunHung:
        _hung(res)
    finally:
        shutil.rmtree(root, ignore_errors=True)
    return res


WATCHDOG = 30      # seconds of real time for one history (typical: 10 ms)


def _hung(res):
    '''A read or a write that never comes back (a retry loop on a file that
    will never be complete, say): neither "ignored or rejected" nor served.'''
    res.sim.outcome = ('wall-timeout', None)
    res.violations.append(('hang', 'did-not-terminate',
                           {'watchdog_s': WATCHDOG}))


def _fact(res, name, n=1):
    res.facts[name] = res.facts.get(name, 0) + n


def _task_of(rel, names):
    '''The task that a file below the output root belongs to: the longest
    task name that is a directory prefix of its path relative to the root
    (the first component for a file that belongs to none).'''
    best = None
    for name in names:
        if rel.startswith(name + os.sep) and \
                (best is None or len(name) > len(best)):
            best = name
    return best if best is not None else rel.split(os.sep)[0]


def _viol(res, cls, sig, detail):
    res.violations.append((cls, sig, detail))


def _run_history(scn, sim, res, root):
    env_mod, common = mods()['env'], mods()['common']
    status_enum = mods()['task'].TaskStatus
    tasks = scn['tasks']
    for tsk in tasks:
        os.makedirs(os.path.join(root, tsk['name']), exist_ok=True)
        os.makedirs(outdir_of(tsk, root), exist_ok=True)
    # reference model: per task, what a reader MUST return (('must', entry or
    # None)) or MAY return (('may', [entries])), entry = (version, status)
    known_blobs = [dict() for _ in tasks]    # blob bytes -> (version, status)
    written = [[] for _ in tasks]            # every (version, status) tried
    # what the last *completed, fault-free* write_env said about each task,
    # until something (damage, a faulty write) makes that unknown
    logical = [None for _ in tasks]
    garbage = set()      # tasks whose file was overwritten with junk
    foreign = set()      # ... or with somebody else's environment

    def path_of(i):
        return os.path.join(outdir_of(tasks[i], root), FILENAME)

    def disk_state(i):
        path = path_of(i)
        if os.path.isdir(path):
            return ('damaged', 'dir')
        try:
            with faultfs._REAL_OPEN(path, 'rb') as fil:
                data = fil.read()
        except FileNotFoundError:
            return ('absent', None)
        if data in known_blobs[i]:
            return ('intact', known_blobs[i][data])
        if i in foreign:
            try:
                obj = pickle.loads(data)
                keys = set(obj.keys())
            except Exception:   # noqa
                keys = None
            if keys is not None and tasks[i]['name'] not in keys and \
                    all(str(k).startswith('somebody-else-') for k in keys):
                return ('foreign', sorted(keys))
        if i in garbage and any(data == junk_bytes(op2.get('junk', 0))
                                for op2 in scn['ops']
                                if op2.get('how') == 'garbage'):
            return ('damaged', 'garbage')
        if not data:
            return ('damaged', 'empty')
        if not any(data):
            return ('damaged', 'nul')
        for blob in known_blobs[i]:
            if blob.startswith(data):
                return ('damaged', 'prefix')
        return ('unknown', None)

    for opno, op in enumerate(scn['ops']):
        kind = op['op']
        if kind == 'write':
            envd = {}
            order = []
            # entries of the environment that are not task entries (shared
            # scalars and areas written by task updates, an entry without a
            # usable output directory): nothing to persist for them, and
            # nothing that should stop the others from being persisted
            extras = {}
            for pos, what in op.get('extras', []):
                extras.setdefault(pos, []).append(what)

            def add_extras(pos):
                for what in extras.get(pos, []):
                    key = 'x-%s-%d' % (what, pos)
                    if what == 'tuple-key':
                        # a value shared by tasks under a key that is not a
                        # string (and cannot be ordered against strings)
                        envd[('shared', pos)] = 1000
                        continue
                    if what == 'int-key':
                        envd[pos] = 'shared'
                        continue
                    envd[key] = {'scalar': 1000, 'text': 'shared',
                                 'area': {'by': {'somebody': 1}},
                                 'outdir-none': {'status': status_enum.DONE,
                                                 'output_dir': None},
                                 # a directory name that open() refuses with
                                 # ValueError, not OSError
                                 'outdir-nul': {'status': status_enum.DONE,
                                                'output_dir': os.path.join(
                                                    root, 'nul\0byte')},
                                 'list': [1, 2]}[what]
            for i, tsk in enumerate(tasks):
                add_extras(i)
                if not op['present'][i]:
                    continue
                ent = gen_entry(tsk, op['version'], op['statuses'][i], root)
                envd[tsk['name']] = ent
                if tsk['has_outdir']:
                    blob = _blob(env_mod, tsk['name'], ent)
                    known_blobs[i][blob] = (op['version'], op['statuses'][i])
                    written[i].append((op['version'], op['statuses'][i]))
                    order.append((i, len(blob)))
            plan = []
            for flt in op['plan']:
                flt = dict(flt)
                if flt['file'] >= len(order):
                    continue
                if 'frac' in flt:
                    size = order[flt['file']][1]
                    flt['byte'] = min(size, int(flt['frac'] * size)) \
                        if flt['frac'] < 1.0 else size
                    if flt['kind'] == 'eio' and flt['byte'] >= size:
                        flt['byte'] = size - 1
                plan.append(flt)
            env = env_mod.Env(envd)
            fs = faultfs.FaultFS(root, plan)
            crashed = False
            with faultfs.active(fs):
                try:
                    common.write_env(env, filename=FILENAME, fmt='pickle')
                except core.SimCrash:
                    crashed = True
                except Exception as exc:  # noqa
                    _viol(res, 'write-raised',
                          'write_env-raised:%s' % type(exc).__name__,
                          {'op': opno, 'exception': repr(exc)[:200],
                           'fired': fs.fired_log})
            for flt in fs.fired_log:
                _fact(res, 'fault-fired:write-%s' % flt['kind'])
                if flt['kind'] == 'crash':
                    size = order[flt['file']][1]
                    _fact(res, 'crash-inside-pickle' if 0 < flt['byte'] < size
                          else 'crash-at-file-boundary')
            for flt in plan:
                _fact(res, 'fault-configured:write-%s' % flt['kind'])
            sim.event('write', op['version'], crashed, len(fs.fired_log),
                      [disk_state(i)[0] for i in range(len(tasks))])
            for i, _size in order:
                logical[i] = (op['version'], op['statuses'][i]) \
                    if not fs.fired_log and not crashed and not plan else None
            if not fs.fired_log and not crashed:
                _fact(res, 'fault-free-writes')
                # a completed fault-free write: every file must be intact
                for i, _size in order:
                    state = disk_state(i)
                    if state[0] != 'intact' or \
                            state[1][0] != op['version']:
                        # not necessarily wrong (another format); the read
                        # below decides.  Remember it for the oracle.
                        _fact(res, 'file-bytes-not-predicted')
        elif kind == 'damage':
            i = op['task']
            path = path_of(i)
            how = op['how']
            exists = os.path.isfile(path)
            if how == 'delete':
                if exists:
                    os.unlink(path)
            elif how == 'dir':
                if exists:
                    os.unlink(path)
                if not os.path.isdir(path):
                    os.makedirs(path, exist_ok=True)
            elif how == 'foreign':
                # a complete, valid environment file that does not belong
                # here: empty, or the entry of another task (a directory that
                # was copied, a task that was renamed)
                if os.path.isdir(os.path.dirname(path)) and \
                        not os.path.isdir(path):
                    junk = op.get('junk', 0)
                    other = 'somebody-else-%d' % (junk % 7)
                    # a side entry written by a task next to its own (no
                    # status), an entry that is not a mapping, an entry of
                    # another task, an empty environment
                    dct = ({}, {other: {'status': status_enum.DONE,
                                        'version': -1,
                                        'output_dir': os.path.dirname(path)}},
                           {other: {'output_dir': os.path.dirname(path)}},
                           {other: 5}, {other: None},
                           {other: {'status': 'DONE'}})[junk % 6]
                    with faultfs._REAL_OPEN(path, 'wb') as fil:
                        pickle.dump(env_mod.Env(dct), fil)
                    foreign.add(i)
            elif how == 'garbage':
                if os.path.isdir(os.path.dirname(path)) and \
                        not os.path.isdir(path):
                    with faultfs._REAL_OPEN(path, 'wb') as fil:
                        fil.write(junk_bytes(op.get('junk', 0)))
                    garbage.add(i)
            elif exists:
                with faultfs._REAL_OPEN(path, 'rb') as fil:
                    data = fil.read()
                if how == 'empty':
                    new = b''
                elif how == 'truncate':
                    new = data[:int(op['frac'] * len(data))] if data else b''
                    if new == data:
                        new = data[:-1]
                else:
                    new = b'\0' * len(data)
                with faultfs._REAL_OPEN(path, 'wb') as fil:
                    fil.write(new)
            logical[i] = None
            _fact(res, 'damage:%s' % how)
            sim.event('damage', i, how, disk_state(i)[0])
            sim.nontrivial = True
        elif kind == 'read':
            names = [tasks[i]['name'] for i in op['order']]
            if op.get('extra_missing_name'):
                names.insert(len(names) // 2, 'never-written-task')
                # ... and a name that open() refuses
                names.insert(len(names) // 3, 'nul\0in-the-name')
            # the directory-in-place-of-file case must stay a directory
            states = [disk_state(i) for i in range(len(tasks))]
            plan = [dict(f) for f in op['plan']]
            sizes = []
            for nm in names:
                try:
                    sizes.append(os.path.getsize(os.path.join(root, nm,
                                                              FILENAME)))
                except (OSError, ValueError):
                    sizes.append(0)
            for flt in plan:
                if 'frac' in flt and flt['file'] < len(sizes):
                    flt['byte'] = int(flt['frac'] * sizes[flt['file']])
                elif 'frac' in flt:
                    flt['byte'] = 0
            fs = faultfs.FaultFS(root, plan)
            got = None
            with faultfs.active(fs):
                try:
                    got = common.read_env(root=root, names=names,
                                          filename=FILENAME, fmt='pickle')
                except driver.RunHung:
                    raise
                except BaseException as exc:  # noqa
                    _viol(res, 'read-raised',
                          'read_env-raised:%s' % type(exc).__name__,
                          {'op': opno, 'exception': repr(exc)[:200],
                           'disk': [s[0:2] for s in states],
                           'fired': fs.fired_log})
            for flt in fs.fired_log:
                _fact(res, 'fault-fired:%s' % flt['kind'])
                sim.nontrivial = True
            _fact(res, 'reads')
            # which files could not be read because of an injected fault?
            # (a task name may have a directory part, 'grp/nested': the task is
            # the one whose directory below the root holds the file)
            unreadable = set()
            for side, index, rel in fs.log:
                if side != 'r':
                    continue
                for flt in fs.fired_log:
                    if flt['file'] == index and flt['kind'] in ('read-eio',
                                                                'open-fail'):
                        unreadable.add(_task_of(rel, names))
            sim.event('read', [s[0] for s in states], sorted(unreadable),
                      got is not None)
            if got is not None:
                _judge_read(scn, res, opno, got, states, unreadable, written,
                            root, status_enum, logical)
        elif kind == 'whole':
            _whole_roundtrip(scn, sim, res, opno, op, root)
        if any(v[1] != ELSEWHERE_SIG for v in res.violations):
            break
        if scn.get('frozen_mtime'):
            for i in range(len(tasks)):
                if os.path.isfile(path_of(i)):
                    os.utime(path_of(i), (1.0e9, 1.0e9))
            whole = os.path.join(root, 'whole.env')
            if os.path.isfile(whole):
                os.utime(whole, (1.0e9, 1.0e9))
    if any(op.get('plan') for op in scn['ops']):
        sim.nontrivial = True


def _judge_read(scn, res, opno, got, states, unreadable, written, root,
                status_enum, logical=None):
    tasks = scn['tasks']
    names = {t['name'] for t in tasks}
    try:
        got_keys = set(got.keys())
    except Exception as exc:  # noqa
        _viol(res, 'read-result', 'read_env-result-not-a-mapping',
              {'op': opno, 'exception': repr(exc)[:200]})
        return
    extra = {k for k in got_keys - names
             if not (str(k).startswith('somebody-else-') and
                     any(st[0] == 'foreign' for st in states))}
    if extra:
        _viol(res, 'read-result', 'read_env-unknown-task',
              {'op': opno, 'extra': sorted(map(str, extra))})
        return
    for i, tsk in enumerate(tasks):
        name = tsk['name']
        state = states[i]
        have = name in got_keys
        if logical and logical[i] is not None and name not in unreadable:
            # independent of what is on the disk now: the last completed
            # write_env said this task was <status> at <version>
            version, status = logical[i]
            _fact(res, 'judged:against-last-completed-write')
            if status != 'DONE' and have:
                _viol(res, 'not-done-reported-done',
                      'entry-for-task-last-written-%s' % status,
                      {'op': opno, 'task': name, 'last_written': [version,
                                                                  status],
                       'entry': _safe_repr(dict(got[name]))[:200]})
                continue
            if status == 'DONE' and have and deep_diff(
                    dict(got[name]), gen_entry(tsk, version, status, root)):
                _viol(res, 'entry-differs', 'entry-is-not-the-last-written',
                      {'op': opno, 'task': name, 'last_written': version,
                       'got_version': dict(got[name]).get('version')})
                continue
        if name in unreadable and not have:
            # an injected read fault: "not done" is the expected answer (an
            # implementation that retried and got the entry is judged below)
            _fact(res, 'judged:unreadable')
            continue
        if state[0] == 'foreign':
            _fact(res, 'judged:foreign-environment-file')
            if have:
                _viol(res, 'not-done-reported-done',
                      'entry-from-foreign-environment-file',
                      {'op': opno, 'task': name})
            continue
        if state[0] in ('absent', 'damaged'):
            _fact(res, 'judged:%s' % state[0])
            if have:
                _viol(res, 'not-done-reported-done',
                      'entry-from-%s-%s-file' % (state[0], state[1]),
                      {'op': opno, 'task': name, 'disk': state[:2],
                       'entry': _safe_repr(dict(got[name]))[:200]})
            continue
        if state[0] == 'intact' and tsk.get('elsewhere') and \
                tsk['has_outdir'] and state[1][1] == 'DONE' and not have:
            # written to the task's output directory, looked for under
            # <output-root>/<name>: never found again
            _fact(res, 'judged:output-dir-elsewhere')
            _viol(res, 'done-entry-lost', ELSEWHERE_SIG,
                  {'op': opno, 'task': name,
                   'output_dir': os.path.relpath(outdir_of(tsk, root), root)})
            continue
        if state[0] == 'intact':
            version, status = state[1]
            want = gen_entry(tsk, version, status, root)
            _fact(res, 'judged:intact-%s' % ('DONE' if status == 'DONE'
                                             else 'not-DONE'))
            if status != 'DONE':
                if have:
                    _viol(res, 'not-done-reported-done',
                          'entry-for-%s-task' % status,
                          {'op': opno, 'task': name, 'status': status})
                continue
            if not have:
                _viol(res, 'done-entry-lost', 'done-entry-lost',
                      {'op': opno, 'task': name, 'version': version})
                continue
            diff = deep_diff(dict(got[name]), want)
            if diff:
                _viol(res, 'entry-differs', 'entry-differs',
                      {'op': opno, 'task': name, 'diff': diff[:4]})
            continue
        # unknown bytes on disk (e.g. another file format): whatever is
        # returned must be an entry that was written for this task, DONE
        _fact(res, 'judged:unknown-bytes')
        if have:
            ok = False
            for version, status in written[i]:
                if status == 'DONE' and not deep_diff(
                        dict(got[name]), gen_entry(tsk, version, status, root)):
                    ok = True
                    break
            if not ok:
                _viol(res, 'entry-differs', 'entry-never-written',
                      {'op': opno, 'task': name,
                       'entry': _safe_repr(dict(got[name]))[:200]})


def _whole_roundtrip(scn, sim, res, opno, op, root):
    '''Env.to_file / Env.from_file on a whole environment.'''
    env_mod = mods()['env']
    envd = {}
    for tsk in scn['tasks']:
        envd[tsk['name']] = gen_entry(tsk, op['version'], 'DONE', root)
    env = env_mod.Env(envd)
    path = os.path.join(root, 'whole.env')
    try:
        env.to_file(path)
    except Exception as exc:  # noqa
        _viol(res, 'write-raised', 'to_file-raised:%s' % type(exc).__name__,
              {'op': opno, 'exception': repr(exc)[:200]})
        return
    cut = op.get('cut')
    if not os.path.isfile(path):
        # to_file returned normally and left no file: the environment is lost
        _viol(res, 'done-entry-lost', 'to_file-left-no-file', {'op': opno})
        return
    if cut is not None:
        with faultfs._REAL_OPEN(path, 'rb') as fil:
            data = fil.read()
        keep = min(len(data) - 1, int(cut * len(data)))
        with faultfs._REAL_OPEN(path, 'wb') as fil:
            fil.write(data[:keep])
        sim.nontrivial = True
        _fact(res, 'whole-env-truncated')
    try:
        back = env_mod.Env.from_file(path)
    except driver.RunHung:
        raise
    except BaseException as exc:  # noqa
        _viol(res, 'read-raised', 'from_file-raised:%s' % type(exc).__name__,
              {'op': opno, 'cut': cut, 'exception': repr(exc)[:200]})
        return
    sim.event('whole', cut is not None, back is None)
    if cut is not None:
        if back is not None:
            _viol(res, 'partial-entry', 'from_file-returned-from-truncated',
                  {'op': opno, 'cut': cut})
    else:
        _fact(res, 'whole-env-roundtrips')
        if back is None:
            _viol(res, 'done-entry-lost', 'from_file-none-for-intact',
                  {'op': opno})
        else:
            diff = deep_diff(dict(back), envd)
            if diff:
                _viol(res, 'entry-differs', 'whole-env-differs',
                      {'op': opno, 'diff': diff[:4]})


# --------------------------------------------------------------------------
# enumeration of truncation points

def read_prefix(scn):
    '''scenario kind "prefix": one truncated / damaged file read through both
    read paths.'''
    sim = core.NullSim()
    sim.nontrivial = True
    res = Result()
    res.sim = sim
    res.violations = []
    res.facts = {}
    root = tempfile.mkdtemp(prefix='c14p-', dir=driver.scratch_root())
    try:
        tsk = scn['task']
        ent = gen_entry(tsk, scn['version'], 'DONE', root)
        blob = _blob(mods()['env'], tsk['name'], ent)
        with driver.watchdog(WATCHDOG):
            viol = _check_damaged(root, tsk['name'], blob, scn['how'],
                                  scn.get('cut', 0))
        sim.event('prefix', scn['how'], scn.get('cut'), len(blob))
        res.violations.extend(viol)
    except driver.RunHung:
        _hung(res)
    finally:
        shutil.rmtree(root, ignore_errors=True)
    return res


def _check_damaged(root, name, blob, how, cut):
    env_mod, common = mods()['env'], mods()['common']
    tdir = os.path.join(root, name)
    os.makedirs(tdir, exist_ok=True)
    path = os.path.join(tdir, FILENAME)
    if os.path.isdir(path):
        os.rmdir(path)
    if how == 'prefix':
        data = blob[:cut]
    elif how == 'nul':
        data = b'\0' * cut
    elif how == 'dir':
        data = None
    else:
        raise AssertionError(how)
    if data is None:
        if os.path.exists(path):
            os.unlink(path)
        os.makedirs(path)
    else:
        with faultfs._REAL_OPEN(path, 'wb') as fil:
            fil.write(data)
    viol = []
    detail = {'how': how, 'cut': cut, 'size': len(blob), 'task': name}
    try:
        back = env_mod.Env.from_file(path)
    except driver.RunHung:
        raise
    except BaseException as exc:  # noqa
        viol.append(('read-raised',
                     'from_file-raised:%s' % type(exc).__name__,
                     dict(detail, exception=repr(exc)[:160])))
        back = None
    else:
        if back is not None:
            viol.append(('partial-entry', 'from_file-returned-from-damaged',
                         dict(detail, got=repr(back)[:160])))
    try:
        got = common.read_env(root=root, names=[name], filename=FILENAME,
                              fmt='pickle')
    except driver.RunHung:
        raise
    except BaseException as exc:  # noqa
        viol.append(('read-raised',
                     'read_env-raised:%s' % type(exc).__name__,
                     dict(detail, exception=repr(exc)[:160])))
    else:
        if len(got):
            viol.append(('not-done-reported-done', 'entry-from-damaged-file',
                         dict(detail, got=repr(dict(got))[:160])))
    return viol


def enum_shard(shard):
    '''Every proper prefix in [lo, hi) of the blob of one (task, version).'''
    root = tempfile.mkdtemp(prefix='c14e-', dir=driver.scratch_root())
    out = {'evaluations': 0, 'violations': {}, 'sizes': shard['size']}
    try:
        tsk = shard['task']
        ent = gen_entry(tsk, shard['version'], 'DONE', root)
        blob = _blob(mods()['env'], tsk['name'], ent)
        if len(blob) != shard['size']:
            raise driver.HarnessError('blob size changed between plan and '
                                      'shard: nondeterministic payload')
        points = shard['points']
        for how, cut in points:
            out['evaluations'] += 1
            try:
                with driver.watchdog(WATCHDOG):
                    viols = _check_damaged(root, tsk['name'], blob, how, cut)
            except driver.RunHung:
                viols = [('hang', 'did-not-terminate',
                          {'watchdog_s': WATCHDOG, 'how': how, 'cut': cut})]
                out['hung'] = True      # (the shard stops after this one)
            for cls, sig, detail in viols:
                lst = out['violations'].setdefault(sig, [])
                if len(lst) < 2:
                    scn = {'kind': 'prefix', 'task': tsk,
                           'version': shard['version'], 'how': how,
                           'cut': cut}
                    lst.append({'class': cls, 'signature': sig,
                                'detail': detail, 'scenario': scn,
                                'preempts': [], 'digest': None,
                                'seed': shard['seed'], 'run_no': -1,
                                'policy': 'enumeration'})
            if out.get('hung'):
                break
    finally:
        shutil.rmtree(root, ignore_errors=True)
    return out


def enumeration(tier, seed):
    rng = random.Random(driver.mix(seed, 0xE14))
    nfiles = 40 if tier == 'quick' else 400
    specs = []
    for k in range(nfiles):
        tsk = {'name': rng.choice(NAMES), 'payload_seed': rng.randrange(10 ** 9),
               'nkeys': rng.randrange(0, 6), 'size': rng.choice((0, 4, 40)),
               'has_outdir': True,
               'big': 9000 if k in (0,) or (tier != 'quick' and k % 10 == 0)
               else 0}
        specs.append((tsk, rng.randrange(1, 5)))
    shards = []
    total_sizes = []
    root = tempfile.mkdtemp(prefix='c14s-', dir=driver.scratch_root())
    try:
        for tsk, version in specs:
            blob = _blob(mods()['env'], tsk['name'],
                         gen_entry(tsk, version, 'DONE', root))
            size = len(blob)
            total_sizes.append(size)
            if tier == 'quick' and size > 6000:
                # big file in the quick tier: both ends, the frame
                # boundaries and a seeded sample; every byte in thorough
                cuts = set(range(0, 1500)) | set(range(size - 1500, size))
                pos = 0
                while True:
                    pos = blob.find(b'\x95', pos)
                    if pos < 0:
                        break
                    cuts.update(range(max(0, pos - 4), min(size, pos + 12)))
                    pos += 1
                cuts.update(rng.randrange(size) for _ in range(3000))
                exhaustive = False
            else:
                cuts = set(range(size))
                exhaustive = True
            points = [('prefix', c) for c in sorted(cuts)]
            points += [('nul', size), ('nul', 1), ('dir', 0)]
            per = 4000
            for lo in range(0, len(points), per):
                shards.append({'task': tsk, 'version': version, 'size': size,
                               'points': points[lo:lo + per], 'seed': seed,
                               'exhaustive': exhaustive})
    finally:
        shutil.rmtree(root, ignore_errors=True)
    results = driver.run_shards(enum_shard, shards, shard_wall=1500,
                                total_wall=3 * 3600)
    out = {'evaluations': 0, 'violations': {}, 'distinct': 0}
    for part in results:
        out['evaluations'] += part['evaluations']
        for sig, lst in part['violations'].items():
            cur = out['violations'].setdefault(sig, [])
            cur.extend(lst[:max(0, 2 - len(cur))])
    out['distinct'] = out['evaluations']
    nex = sum(1 for (tsk, ver), size in zip(specs, total_sizes)
              if not (tier == 'quick' and size > 6000))
    out['coverage'] = {
        'truncation_points_read_back': out['evaluations'],
        'files_enumerated': len(specs),
        'files_with_every_proper_prefix': nex,
        'file_sizes_bytes': total_sizes,
        'exhaustive': False,
        'exhaustive_dimension': 'every proper prefix (every crash point of a '
                                'sequential writer) of %d of the %d sampled '
                                'environment files, plus empty / NUL-filled / '
                                'directory-in-place; payloads are sampled'
                                % (nex, len(specs)),
    }
    return out


# --------------------------------------------------------------------------

class Spec(simcheck.SimSpec):
    prop = 'C14'
    level = 'fault_enumeration'
    runs = {'quick': 40000, 'thorough': 2000000}
    shard_runs = 200
    search_tries = 0
    families = [{'label': 'fault-free', 'faults': False},
                {'label': 'faults', 'faults': True},
                {'label': 'faults-2', 'faults': True},
                {'label': 'faults-3', 'faults': True}]
    rule = ('phase 1: one evaluation = one seeded history (2-9 operations) of '
            'write_env / crash at byte k of file i / short write with EIO or '
            'ENOSPC / failing open / direct damage (delete, empty, truncate, '
            'NUL-fill, directory in place) / Env.to_file+from_file of a whole '
            'environment / read_env, over 1-5 tasks with generated picklable '
            'payloads, judged against a reference model of the files; '
            'non-trivial = a fault fired or a file was damaged; distinct = '
            'distinct digests of (operation, disk states, outcome) sequences. '
            'phase 2: one evaluation = one (file, truncation point) read back '
            'through Env.from_file and read_env; all distinct')
    assumptions = [
        'crash model: a sequential writer leaves a byte prefix (or a NUL-filled'
        ' / empty file); block reordering is not modelled because each file is'
        ' written once, sequentially, never synced',
        'silent corruption that still unpickles (bit flips) is out of scope: '
        'the format has no checksum and the property does not claim detection',
        'payloads are sampled; the truncation dimension is enumerated',
    ]
    real = ['valjean.cosette.env (Env.to_file/from_file/merge_done_tasks)',
            'valjean.cambronne.common.read_env/write_env', 'pickle',
            'the real file system (scratch tree on tmpfs)']
    stub = ['builtins.open / io.open wrapped by the fault seam for paths '
            'under the scratch root (pass-through otherwise)',
            'process crash = SimCrash unwinding the writer']

    def prepare(self):
        mods()
        faultfs.install()

    def seams(self):
        return {'builtins.open': faultfs.installed()}

    def gen(self, rng, fam):
        return gen_history(rng, fam)

    def draw_chooser(self, rng, scn):
        return None

    def run(self, scn, chooser):
        if scn['kind'] == 'prefix':
            return read_prefix(scn)
        return run_history(scn)

    def oracle(self, scn, res):
        return res.violations

    def nontrivial(self, scn, res):
        return res.sim.nontrivial

    def facts(self, scn, res):
        return res.facts

    def describe(self, scn):
        return scn

    def candidates(self, scn):
        if scn['kind'] != 'envhist':
            return
        ops = scn['ops']
        for k, op in enumerate(ops):
            for j in range(len(op.get('plan', []))):
                new = copy.deepcopy(scn)
                del new['ops'][k]['plan'][j]
                yield new
        for k in range(len(ops) - 1, -1, -1):
            if len(ops) > 1:
                new = copy.deepcopy(scn)
                del new['ops'][k]
                yield new
        for k, tsk in enumerate(scn['tasks']):
            if len(scn['tasks']) > 1:
                new = copy.deepcopy(scn)
                del new['tasks'][k]
                bad = False
                for op in new['ops']:
                    if op['op'] == 'write':
                        del op['statuses'][k]
                        del op['present'][k]
                        op['plan'] = [f for f in op['plan']
                                      if f['file'] < len(new['tasks'])]
                    elif op['op'] == 'read':
                        op['order'] = [i - 1 if i > k else i
                                       for i in op['order'] if i != k]
                        op['plan'] = [f for f in op['plan']
                                      if f['file'] < len(new['tasks'])]
                    elif op['op'] == 'damage':
                        if op['task'] == k:
                            bad = True
                        elif op['task'] > k:
                            op['task'] -= 1
                if not bad:
                    yield new
            for field, plain in (('nkeys', 0), ('big', 0), ('size', 0)):
                if tsk[field] != plain:
                    new = copy.deepcopy(scn)
                    new['tasks'][k][field] = plain
                    yield new

    def extra(self, tier, seed):
        return enumeration(tier, seed)


SPEC = Spec()


def main(argv):
    return simcheck.main('C14', argv)
