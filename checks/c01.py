"""C01 -- a task never starts before its dependencies finished and published
their results.  Seeded exploration of schedules of the real queue backend
under the thread simulator; the oracle is evaluated by the probe tasks at the
first instruction of do()."""
from checks import sched, simcheck


class Spec(simcheck.SimSpec):
    prop = 'C01'
    level = 'exploration'
    runs = {'quick': 24000, 'thorough': 1500000}
    shard_runs = 500
    families = [{'label': 'well-formed', 'family': 'well'},
                {'label': 'well-formed-2', 'family': 'well'},
                {'label': 'malformed-returns', 'family': 'malformed'},
                {'label': 'unmergeable-updates', 'family': 'unmergeable'},
                {'label': 'tasks-calling-sys-exit', 'family': 'exiting'},
                {'label': 'tasks-echoing-their-entry', 'family': 'echo'},
                # results of an earlier run in the environment: dependencies
                # that are re-executed must still finish first
                {'label': 'initial-env-done', 'family': 'well',
                 'init_done': True},
                # same tasks, same backend object, scheduled again by a new
                # Scheduler with more dependencies than the first time
                {'label': 'second-graph-same-backend', 'family': 'well',
                 'second_graph': True}]
    rule = ('one evaluation = one simulated execution of Scheduler.schedule() '
            'on a seeded acyclic hard/soft graph of <= 9 probe tasks (handed '
            'over node by node, as dependency dictionaries, through the '
            'tasks\' dependency sets or with an embedded, possibly empty, '
            'sub-graph node; node order and hashes are a seeded permutation) '
            'with scripted outcomes (success, exceptions incl. SystemExit and '
            'other BaseExceptions, FAILED, malformed results, updates that '
            'cannot be merged or carry a status), 1-5 workers or the default '
            'backend, optionally a second call by a new Scheduler on the same '
            'backend, a Scheduler built twice from one graph, a second master '
            'in another thread, under a seeded policy (random '
            'walk / PCT / stall injection, 20% with line-level pre-emption); '
            'non-trivial = at least two threads were runnable at some '
            'decision; distinct = distinct digests of the full event trace '
            '(thread, operation, object label per yield point)')
    assumptions = [
        'pre-emption happens at synchronisation points (and source lines of '
        'queue.py/env.py/scheduler.py in line mode), not between bytecodes',
        'the simulated lock/condition/queue semantics match CPython '
        '(unfair locks, FIFO notify, no spurious wake-ups)',
        'sampling of schedules, not enumeration',
    ]
    real = ['valjean.cosette.backends.queue', 'valjean.cosette.env',
            'valjean.cosette.scheduler', 'valjean.cosette.depgraph',
            'valjean.cosette.task', 'valjean.cosette.pythontask',
            'stdlib queue.Queue (source re-executed over simulated locks)']
    stub = ['threading (Thread/Lock/RLock/Condition/...)', 'time',
            'tasks (probe tasks with scripted outcomes)',
            'the choice of which thread runs next', 'the clock']

    def gen(self, rng, fam):
        if fam.get('init_done'):
            return sched.gen_scenario(rng, family=fam['family'],
                                      init_env=True,
                                      init_statuses=('DONE',))
        return sched.gen_scenario(rng, family=fam['family'],
                                  second_graph=fam.get('second_graph', False))

    def draw_chooser(self, rng, scn):
        return sched.draw_chooser(rng, scn)

    def run(self, scn, chooser):
        return sched.run_scenario(scn, chooser)

    def oracle(self, scn, res):
        return sched.oracle_c01(scn, res)

    def candidates(self, scn):
        return sched.shrink_candidates(scn)

    def facts(self, scn, res):
        facts = sched.sched_facts(scn, res)
        facts['dependency-observations'] = sum(len(r['obs'])
                                               for r in res.execs)
        return facts


SPEC = Spec()
