"""Scheduler scenarios, probe tasks, one simulated run, and the C01/C02/C03
oracles.  A *scenario* is a plain JSON-able dict; (scenario, pre-emption list)
is one exactly repeatable execution.
"""
import random

from vsim import core, policy, load

FINAL = ('DONE', 'FAILED', 'SKIPPED')
_STATE = {}
WALL_LIMIT = 25.0      # seconds of real time without the run ending
MALFORMED = ('none', 'notpair', 'triple', 'badstatus', 'nonmapping')
# a mapping that cannot be merged: it replaces the task's own entry (a mapping
# holding its status and clocks) by something that is not a mapping
UNMERGEABLE = ('clobber',)
# an exception that is not an Exception: a user function calling sys.exit()
EXITING = ('sysexit',)
OUTCOMES_WELL = ('ok', 'raise', 'failed')

TICKS = (1e-6, 1e-5, 1e-4, 1e-3, 1e-2)


# --------------------------------------------------------------------------
# scenario generation

def gen_scenario(rng, *, family='well', cyclic=False, init_env=False,
                 max_tasks=9, init_statuses=('DONE', 'DONE', 'FAILED',
                                             'SKIPPED'),
                 calls=1, start_fault=False, second_graph=False,
                 interrupt=False):
    '''Draw one scheduler scenario.

    family: 'well' (ok/raise/FAILED), 'malformed' (adds malformed returns),
    'mixed'.  cyclic / init_env are only used by C03.'''
    ntask = rng.choice((1, 2, 3, 3, 4, 4, 5, 5, 6, 7, 8, max_tasks))
    shape = rng.choice(('random', 'random', 'chain', 'diamond', 'fan'))
    wide = family == 'wide' and rng.random() < 0.012
    if family == 'wide' and not wide:
        family = 'well'
    if wide:
        # one root and more dependants, all released at once, than any
        # sensible bound on a queue or a pool
        ntask, shape, family = rng.choice((1100, 1500)), 'wide', 'well'
    p_edge = rng.choice((0.15, 0.3, 0.5, 0.8))
    p_soft = rng.choice((0.0, 0.2, 0.5, 1.0))
    p_fail = rng.choice((0.0, 0.1, 0.3, 0.6))
    tasks = []
    for i in range(ntask):
        hard, soft = [], []
        if shape == 'chain':
            cand = [i - 1] if i else []
        elif shape == 'wide':
            cand = [0] if i else []
        elif shape == 'diamond':
            if i == 0:
                cand = []
            elif i == ntask - 1 and ntask > 2:
                cand = list(range(1, i))
            else:
                cand = [0]
        elif shape == 'fan':
            cand = [j for j in range(i) if rng.random() < 0.7] if \
                i == ntask - 1 else []
        else:
            cand = [j for j in range(i) if rng.random() < p_edge]
        for j in cand:
            (soft if rng.random() < p_soft else hard).append(j)
        if rng.random() < p_fail:
            if family in ('well', 'echo'):
                out = rng.choice(('raise', 'failed'))
            elif family == 'malformed':
                out = rng.choice(MALFORMED + ('raise', 'failed'))
            elif family == 'unmergeable':
                out = rng.choice(UNMERGEABLE + UNMERGEABLE + MALFORMED +
                                 ('raise', 'failed'))
            elif family == 'exiting':
                out = rng.choice(EXITING + EXITING + ('raise', 'failed'))
            else:
                out = rng.choice(MALFORMED + ('raise', 'failed'))
        else:
            out = 'ok'
        tasks.append({
            'name': 't%d' % i if rng.random() < 0.8 else 't %d/x' % i,
            'kind': rng.choice(('task', 'pytask')),
            'hard': hard, 'soft': soft,
            'outcome': out,
            'variant': rng.randrange(24),
            'dur': rng.choice((0, 0, 1, 3, 10, 40, 200, 0, 1, 3, 10, 40, 200,
                               # a long one (with the larger ticks: more than
                               # ten simulated minutes of idle co-workers)
                               100000)),
            'shared': rng.random() < 0.3,
            'echo_status': family == 'echo' and rng.random() < 0.5,
            'hints': family in ('well', 'echo') and rng.random() < 0.15,
            'fragile_eq': rng.random() < 0.1,
            # a task that first looks at what is in the environment (a pure
            # read: counts or collects the results that are there)
            'surveys': rng.random() < 0.12,
        })
    scn = {
        'kind': 'sched',
        'salt': rng.randrange(1 << 30),
        'tasks': tasks,
        'workers': rng.choice((1, 2, 2, 3, 3, 4, 5)),
        'tick': rng.choice(TICKS),
        'linemode': rng.random() < 0.2,
        'init_env': {},
    }
    if wide:
        for tsk in tasks:
            tsk.update(outcome='ok', dur=0, shared=False, kind='task',
                       hints=False, name=tsk['name'].replace(' ', '')
                       .replace('/x', ''))
            tsk['soft'] = []
            tsk['hard'] = [0] if tsk is not tasks[0] else []
        scn.update(workers=rng.choice((1, 2, 3)), linemode=False, wide=True)
    # how the graphs are handed to the scheduler: node by node, from
    # dependency dictionaries, from the tasks' own dependency sets (the way
    # the run command builds them), or with a sub-graph embedded as one node
    scn['graph_api'] = rng.choice(('add', 'add', 'dict', 'tasks', 'nested',
                                   'full'))
    if wide:
        scn['graph_api'] = 'add'
    if cyclic and scn['graph_api'] == 'nested':
        scn['graph_api'] = 'add'
    if cyclic and scn['graph_api'] == 'tasks' and _STATE.get('spinning'):
        # (a process that has already seen the closure of a cyclic job spin
        # does not wait for it again and again)
        scn['graph_api'] = 'add'
    if scn['graph_api'] == 'nested':
        if ntask >= 3:
            make_group(rng, scn)
            if rng.random() < 0.5:
                # a second sub-graph node, grafted before or after the first:
                # a bag of tasks that have no hard edge at all (or nothing)
                grp = scn['group']
                busy = set(grp['members']) | set(grp['deps']) | \
                    set(grp['dependees'])
                for i, tsk in enumerate(tasks):
                    if tsk['hard']:
                        busy.add(i)
                        busy.update(tsk['hard'])
                free = [i for i in range(ntask) if i not in busy]
                scn['bag'] = {'members': [i for i in free
                                          if rng.random() < 0.7],
                              'at': rng.randrange(0, ntask + 2)}
        else:
            scn['graph_api'] = 'add'
    if not init_env and not wide and rng.random() < 0.06:
        # everything left to the defaults: backend (10 workers), environment,
        # configuration, no soft graph when there is no soft edge
        scn['defaults'] = True
        scn['workers'] = 10
    if family in ('well', 'echo') and not cyclic and not wide and \
            rng.random() < 0.08:
        # somebody else schedules another, unrelated graph on a backend of his
        # own, in another thread, at the same time: two backends share nothing
        scn['second_master'] = rng.choice((1, 2, 3))
    if rng.random() < 0.12:
        scn['pickled_env'] = True
    if rng.random() < 0.1:
        # a first Scheduler is built from the same graph objects and thrown
        # away: constructing one must not change the caller's graphs
        scn['built_twice'] = True
    if calls > 1:
        # schedule() is called again on the same Scheduler (same backend
        # object): with the environment the first call returned, or afresh
        scn['calls'] = calls
        scn['second_env'] = rng.choice(('returned', 'fresh'))
    if second_graph and ntask >= 2:
        # the same task objects are scheduled a second time on the same
        # backend object, by a new Scheduler, from an empty environment, with
        # a few more dependencies than the first time
        scn['calls'] = 2
        scn['second_env'] = 'fresh'
        if scn['graph_api'] == 'nested':
            scn['graph_api'] = 'add'
            scn.pop('group', None)
        extra = []
        for _ in range(rng.choice((1, 2, 3))):
            i = rng.randrange(1, ntask)
            j = rng.randrange(0, i)
            if j in tasks[i]['hard'] or j in tasks[i]['soft'] or \
                    any(e[0] == i and e[1] == j for e in extra):
                continue
            extra.append([i, j, 'soft' if rng.random() < 0.3 else 'hard'])
        scn['edges2'] = extra
    if interrupt:
        # Ctrl-C while the master is at work (at its n-th yield point)
        scn['interrupt_main_at'] = rng.randrange(1, 40 + 12 * ntask)
        scn.pop('second_master', None)
    if start_fault:
        # the k-th worker thread cannot be started
        scn['fail_thread_start'] = rng.randrange(1, scn['workers'] + 1)
        scn.pop('second_master', None)   # (his thread is not the target)
    if cyclic and ntask >= 1:
        # add one or two back edges (self loops included)
        for _ in range(rng.choice((1, 1, 2))):
            i = rng.randrange(ntask)
            j = rng.randrange(i, ntask)
            key = 'soft' if rng.random() < 0.4 else 'hard'
            if j not in tasks[i][key]:
                tasks[i][key].append(j)
        scn['cyclic_requested'] = True
    if init_env:
        for i in range(ntask):
            if rng.random() < 0.4:
                ent = {'status': rng.choice(init_statuses)}
                if rng.random() < 0.6:
                    start = 1000.0 + rng.randrange(100)
                    ent['start_clock'] = start
                    ent['end_clock'] = start + rng.randrange(1, 50)
                if rng.random() < 0.2:
                    # the earlier run left an open handle among the results
                    ent['handle'] = True
                scn['init_env'][str(i)] = ent
    return scn


def make_group(rng, scn):
    '''Embed a contiguous range of tasks as one sub-graph node of the hard
    graph.  The members keep their internal hard edges and lose the other
    ones; the node depends on earlier tasks and later tasks depend on it.
    scn['tasks'][i]['hard'] is rewritten to the flat relation that the
    documented grafting produces: members without hard dependencies inside
    the group depend on what the node depends on, and what depends on the node
    depends on the members nobody in the group depends on.'''
    tasks = scn['tasks']
    ntask = len(tasks)
    if rng.random() < 0.2:
        # an EMPTY sub-graph between two layers: what depends on it depends
        # on what it depends on
        lo = rng.randrange(1, ntask)
        gdeps = [j for j in range(lo) if rng.random() < 0.6] or [lo - 1]
        gdependees = [k for k in range(lo, ntask) if rng.random() < 0.6] \
            or [lo]
        # the node depends (hard) on what precedes it; what follows depends
        # on it through the hard graph, or only through the soft one
        side = 'soft' if rng.random() < 0.4 else 'hard'
        for k in gdependees:
            tasks[k][side] = sorted(set(tasks[k][side]) | set(gdeps))
        for tsk in tasks:
            tsk['soft'] = [j for j in tsk['soft'] if j not in tsk['hard']]
        scn['group'] = {'members': [], 'inner': {}, 'deps': gdeps,
                        'dependees': gdependees, 'dependees_in': side}
        return
    size = rng.choice((1, 2, 2, 3)) if ntask > 3 else rng.choice((1, 2, 2))
    lo = rng.randrange(0, ntask - size + 1)
    members = list(range(lo, lo + size))
    mset = set(members)
    # the sub-graph sits in the hard graph, or (less often) in the soft one:
    # its inner edges are then soft and must stay soft
    key = 'soft' if rng.random() < 0.3 else 'hard'
    if key == 'soft':
        # give the members something to be grouped by
        for pos, i in enumerate(members[1:], 1):
            if rng.random() < 0.7 and members[pos - 1] not in tasks[i]['hard']:
                tasks[i]['soft'] = sorted(set(tasks[i]['soft']) |
                                          {members[pos - 1]})
    for i, tsk in enumerate(tasks):
        if i in mset:
            tsk[key] = [j for j in tsk[key] if j in mset]
        else:
            tsk[key] = [j for j in tsk[key] if j not in mset]
    gdeps = [j for j in range(lo) if rng.random() < 0.6]
    gdependees = [k for k in range(lo + size, ntask) if rng.random() < 0.6]
    inner = {i: list(tasks[i][key]) for i in members}
    terminals = [i for i in members if not inner[i]]
    initials = [i for i in members
                if not any(i in inner[m] for m in members)]
    for i in terminals:
        tasks[i][key] = sorted(set(tasks[i][key]) | set(gdeps))
    for k in gdependees:
        tasks[k][key] = sorted(set(tasks[k][key]) | set(initials))
    if key == 'hard':
        for tsk in tasks:
            tsk['soft'] = [j for j in tsk['soft'] if j not in tsk['hard']]
    scn['group'] = {'members': members, 'inner': {str(i): inner[i]
                                                  for i in members},
                    'deps': gdeps, 'dependees': gdependees, 'in': key}


def node_order(scn):
    '''The order in which the tasks are created, hashed and handed to the
    graphs is a seeded permutation: nothing may rely on the harness numbering
    the tasks in topological order.  perm[i] is the rank (and hash) of task
    i.'''
    ntask = len(scn['tasks'])
    salt = scn.get('salt')
    if salt is None:
        return list(range(ntask))
    return random.Random(salt * 31 + ntask).sample(range(ntask), ntask)


def is_cyclic(scn):
    tasks = scn['tasks']
    color = {}

    def visit(i):
        color[i] = 1
        for j in tasks[i]['hard'] + tasks[i]['soft']:
            if color.get(j) == 1:
                return True
            if j not in color and visit(j):
                return True
        color[i] = 2
        return False
    return any(i not in color and visit(i) for i in range(len(tasks)))


def topo_order(scn):
    tasks = scn['tasks']
    seen, order = set(), []

    def visit(i):
        if i in seen:
            return
        seen.add(i)
        for j in tasks[i]['hard'] + tasks[i]['soft']:
            visit(j)
        order.append(i)
    for i in range(len(tasks)):
        visit(i)
    return order


def model_statuses(scn):
    '''C02 reference model: final status per task index.'''
    tasks = scn['tasks']
    status = {}
    for i in topo_order(scn):
        tsk = tasks[i]
        if any(status[j] in ('FAILED', 'SKIPPED') for j in tsk['hard']):
            status[i] = 'SKIPPED'
        elif tsk['outcome'] == 'ok':
            status[i] = 'DONE'
        else:
            status[i] = 'FAILED'
    return status


# --------------------------------------------------------------------------
# scripted updates

def leaf(run_tag, i, key):
    return 'u:%s:%d:%s' % (run_tag, i, key)


# something that is a perfectly good result and cannot be copied or pickled
# (an open handle, a generator over the results)
HANDLE = (x for x in ())


def scripted_update(scn, i, run_tag='r'):
    '''The environment update task i returns (fresh objects every call).'''
    tsk = scn['tasks'][i]
    name = tsk['name']
    upd = {name: {'result': leaf(run_tag, i, 'result'),
                  'nothing': None, 'zero': 0,
                  'extra': {'a': leaf(run_tag, i, 'a'),
                            'deep': {'b': leaf(run_tag, i, 'b')},
                            # "no value" is a value too, and so are falsy ones
                            'nothing': None, 'zero': 0, 'empty': ''}}}
    if tsk.get('shared'):
        upd['shared-area'] = {'by': {name: leaf(run_tag, i, 'shared')}}
        # top-level values that are not mappings (a seed, a list of names)
        upd['seed-of-%d' % i] = leaf(run_tag, i, 'seed')
        upd[name]['handle'] = HANDLE
        upd['list-of-%d' % i] = [leaf(run_tag, i, 'item'), i]
    if tsk.get('hints'):
        # a word for the tasks that depend on this one, left in THEIR entries
        for k, other in enumerate(scn['tasks']):
            if i in other['hard'] or i in other['soft']:
                upd[other['name']] = {'hint-from-%d' % i:
                                      leaf(run_tag, i, 'hint-%d' % k)}
    return upd


def missing_leaves(update, env, path=()):
    '''Paths of ``update`` leaves not readable from ``env`` (deep subset).'''
    missing = []
    for key, val in update.items():
        try:
            cur = env[key]
        except (KeyError, TypeError):
            missing.append('/'.join(map(str, path + (key,))))
            continue
        if isinstance(val, dict):
            if hasattr(cur, 'keys'):
                missing.extend(missing_leaves(val, cur, path + (key,)))
            else:
                missing.append('/'.join(map(str, path + (key,))))
        elif cur != val:
            missing.append('/'.join(map(str, path + (key,))))
    return missing


def scripted_return(scn, i, status_enum, run_tag='r'):
    tsk = scn['tasks'][i]
    out = tsk['outcome']
    var = tsk.get('variant', 0)
    upd = scripted_update(scn, i, run_tag)

    def pick(*choices):
        return choices[var % len(choices)]

    if out in ('ok', 'failed') and not tsk.get('echo_status') and \
            var % 8 in (3, 5, 6):
        # an update that is a mapping without being a dict
        import types
        import collections
        upd = {3: types.MappingProxyType, 5: collections.UserDict,
               6: collections.ChainMap}[var % 8](upd)
    if out == 'ok':
        if tsk.get('echo_status'):
            # the task hands back (a copy of) its own entry, status included,
            # as it found it in the environment: the status it RETURNS counts
            upd[tsk['name']]['status'] = pick(
                status_enum.PENDING, status_enum.WAITING, status_enum.FAILED,
                status_enum.PENDING)
        return upd, status_enum.DONE
    if out == 'failed':
        return upd, status_enum.FAILED
    if out == 'none':
        return None
    if out == 'notpair':
        return pick(42, 'a string', [1, 2, 3], upd, 0, '', (), [],
                    iter((upd, status_enum.DONE)),
                    (x for x in (upd, status_enum.DONE)),
                    # things that cannot even be looked at
                    _NoLength((upd, status_enum.DONE)),
                    (_dead_proxy(), status_enum.DONE))
    if out == 'triple':
        return (upd, status_enum.DONE, 'extra') if var % 2 else (upd,)
    if out == 'badstatus':
        # not a TaskStatus at all, or a TaskStatus that is not a final one
        import numpy
        return upd, pick('DONE', 99, None, 2.5, status_enum.PENDING,
                         status_enum.WAITING, 0, 3, status_enum.SKIPPED,
                         # a function returning (values, errors)
                         numpy.array([0.5, 0.25]), [status_enum.DONE])
    if out == 'nonmapping':
        # falsy ones included: "no update" is None, nothing else
        return pick([1, 2], 7, 'update', [('k', 'v')], [], '', 0, (),
                    False), status_enum.DONE
    if out == 'clobber':
        return {tsk['name']: pick('text', None, 5, ['a'], '', 0)}, \
            status_enum.DONE
    raise AssertionError(out)


class _NoLength(tuple):
    '''A result whose inspection raises.'''

    def __len__(self):
        raise TypeError('object of this type has no len()')


class _Update(dict):
    pass


def _dead_proxy():
    '''A weak reference to an update that is gone: any use of it raises
    ReferenceError (isinstance() included).'''
    import weakref
    upd = _Update()
    proxy = weakref.proxy(upd)
    del upd
    return proxy


class ProbeError(Exception):
    '''Scripted failure of a probe task.'''


class ProbeBaseError(BaseException):
    '''Scripted failure of a probe task, not an Exception.'''


class GrumpyError(Exception):
    '''An exception that cannot be printed.'''

    def __str__(self):
        raise TypeError('can only concatenate str (not "int") to str')

    __repr__ = __str__


# --------------------------------------------------------------------------
# recorder

class Recorder:
    def __init__(self):
        self.execs = []       # dicts: task, enter_step, exit_step, obs, ...
        self.open = {}

    def enter(self, sim, i, obs, run_no=0):
        rec = {'task': i, 'run': run_no, 'enter_step': sim.steps,
               'enter_clock': sim.clock, 'exit_step': None,
               'exit_clock': None, 'obs': obs, 'tid': sim.cur.tid}
        self.execs.append(rec)
        return rec

    @staticmethod
    def exit(sim, rec):
        rec['exit_step'] = sim.steps
        rec['exit_clock'] = sim.clock


# --------------------------------------------------------------------------
# building the job

def status_name(val):
    name = getattr(val, 'name', None)
    if name is not None:
        return name
    return repr(val)


def direct_deps(scn, call=0):
    '''Ground truth: direct dependencies (hard or soft) of every task in the
    graph used by the given call of schedule().'''
    direct = [set(t['hard']) | set(t['soft']) for t in scn['tasks']]
    if call > 0:
        for i, j, _kind in scn.get('edges2', []):
            direct[i].add(j)
    return [sorted(d) for d in direct]


def build_tasks(scn, mods, recorder, run_tag='r', run_no=0, state=None):
    '''Create fresh probe tasks for the scenario.  Returns the task list.
    ``state`` (optional): {'call': n} updated by the caller between calls of
    schedule(); the probes look at the dependencies of the current call.'''
    task_mod, py_mod = mods['task'], mods['pythontask']
    status_enum = task_mod.TaskStatus
    specs = scn['tasks']
    state = state if state is not None else {'call': 0}
    per_call = {}
    objs = [None] * len(specs)
    rank = node_order(scn)

    def body(i, env):
        sim = core.cur_sim()
        obs = []
        call = state['call']
        if call not in per_call:
            per_call[call] = direct_deps(scn, call)
        direct = per_call[call]
        run_no = call
        for j in direct[i]:
            dname = specs[j]['name']
            try:
                ent = env[dname]
            except KeyError:
                ent = None
            if ent is None:
                stat = None
            else:
                try:
                    stat = status_name(ent['status'])
                except (KeyError, TypeError):
                    stat = None
            miss = []
            if specs[j]['outcome'] == 'ok':
                miss = missing_leaves(scripted_update(scn, j, run_tag), env)
            obs.append((j, stat, miss))
        rec = recorder.enter(sim, i, obs, run_no)
        sim.mark('do-enter', i)
        if specs[i].get('surveys'):
            for name in env:
                sim.yield_point('survey')       # (reading takes time)
                env.get(name)
        dur = specs[i]['dur']
        if dur:
            sim.sleep(dur * sim.tick, 'work')
        else:
            sim.yield_point('work')
        sim.mark('do-exit', i)
        recorder.exit(sim, rec)
        if specs[i]['outcome'] == 'raise':
            if specs[i].get('variant', 0) % 5 == 4:
                raise GrumpyError()
            raise ProbeError('scripted failure of %s' % specs[i]['name'])
        if specs[i]['outcome'] == 'sysexit':
            # exceptions that are not Exceptions
            kind = specs[i].get('variant', 0) % 6
            if kind == 0:
                raise SystemExit(3)
            if kind == 4:
                raise SystemExit(0)     # sys.exit(0), sys.exit(main())
            if kind == 5:
                raise SystemExit()      # sys.exit()
            if kind == 1:
                raise KeyboardInterrupt()
            if kind == 2:
                raise GeneratorExit()
            raise ProbeBaseError('scripted failure of %s' % specs[i]['name'])
        return scripted_return(scn, i, status_enum, run_tag)

    class ProbeTask(task_mod.Task):
        def __init__(self, idx, name, **kw):
            super().__init__(name, **kw)
            self.idx = idx

        def __hash__(self):
            return rank[self.idx]

        def __eq__(self, other):
            if specs[self.idx].get('fragile_eq'):
                # a user's task class whose equality only knows tasks
                return self.idx == other.idx
            return self is other

        def do(self, env, config):
            return body(self.idx, env)

    class ProbePyTask(py_mod.PythonTask):
        def __init__(self, idx, name, **kw):
            super().__init__(name, self._func, env_kwarg='env', **kw)
            self.idx = idx

        def __hash__(self):
            return rank[self.idx]

        def __eq__(self, other):
            if specs[self.idx].get('fragile_eq'):
                # a user's task class whose equality only knows tasks
                return self.idx == other.idx
            return self is other

        def __deepcopy__(self, memo):
            return self

        def _func(self, env):
            return body(self.idx, env)

    order = topo_order(scn) if not is_cyclic(scn) else \
        list(range(len(specs)))
    for i in order:
        cls = ProbeTask if specs[i]['kind'] == 'task' else ProbePyTask
        objs[i] = cls(i, specs[i]['name'])
    for i, spec in enumerate(specs):
        objs[i].depends_on.update(objs[j] for j in spec['hard'])
        objs[i].soft_depends_on.update(objs[j] for j in spec['soft'])
    return objs


def build_graphs(scn, mods, objs):
    dg = mods['depgraph'].DepGraph
    api = scn.get('graph_api', 'add')
    specs = scn['tasks']
    if api == 'dict':
        rank = node_order(scn)
        by_rank = sorted(range(len(specs)), key=lambda i: rank[i])
        hard = dg.from_dependency_dictionary(
            {objs[i]: [objs[j] for j in specs[i]['hard']] for i in by_rank})
        soft = dg.from_dependency_dictionary(
            {objs[i]: [objs[j] for j in specs[i]['soft']] for i in by_rank})
        return hard, soft
    if api == 'full':
        # the full form of the constructor: the list of nodes and a mapping
        # between their indices that only says what there is to say (a node
        # without edges is in the list, not in the mapping)
        rank = node_order(scn)
        by_rank = sorted(range(len(specs)), key=lambda i: rank[i])
        pos = {i: k for k, i in enumerate(by_rank)}
        nodes = [objs[i] for i in by_rank]
        graphs = []
        for key in ('hard', 'soft'):
            edges = {pos[i]: [pos[j] for j in specs[i][key]]
                     for i in by_rank if specs[i][key]}
            graphs.append(dg(list(nodes), edges))
        return tuple(graphs)
    if api == 'tasks':
        # like valjean.cambronne.common.build_graphs on the tasks that
        # nobody depends on
        needed = set()
        for spec in specs:
            needed.update(spec['hard'] + spec['soft'])
        tops = [objs[i] for i in range(len(specs)) if i not in needed]
        if is_cyclic(scn):
            # a cycle that nothing outside it depends on has no top: the job
            # names every task (on acyclic jobs only the tops, so that the
            # closure has something to do)
            tops = list(objs)
        tasks = mods['task'].close_dependency_graph(tops)
        hard, soft = dg(), dg()
        for tsk in tasks:
            hard.add_node(tsk)
            soft.add_node(tsk)
            for dep in tsk.depends_on:
                hard.add_dependency(tsk, on=dep)
            for dep in tsk.soft_depends_on:
                soft.add_dependency(tsk, on=dep)
        return hard, soft
    hard, soft = dg(), dg()
    group = scn.get('group') if api == 'nested' else None
    members = set(group['members']) if group else set()
    rank = node_order(scn)
    by_rank = sorted(range(len(specs)), key=lambda i: rank[i])
    gkey = group.get('in', 'hard') if group else 'hard'
    graphs = {'hard': hard, 'soft': soft}
    sub = None
    if group:
        sub = dg()
        for i in group['members']:
            sub.add_node(objs[i])
        for i in group['members']:
            for j in group['inner'][str(i)]:
                sub.add_dependency(objs[i], on=objs[j])
    # the sub-graph node is not always the last node of its graph
    sub_pos = (scn.get('salt', 0) // 7) % (len(by_rank) + 1) if group else -1
    bag = scn.get('bag') if group else None
    bagged = set(bag['members']) if bag else set()
    bag_node = None
    if bag:
        bag_node = dg()
        for i in bag['members']:
            bag_node.add_node(objs[i])
    for pos, i in enumerate(by_rank):
        if bag and pos == bag['at']:
            hard.add_node(bag_node)
        if pos == sub_pos:
            graphs[gkey].add_node(sub)
        for key, graph in graphs.items():
            if key == 'hard' and i in bagged:
                continue        # (in the hard graph through the bag)
            if i not in members or key != gkey:
                graph.add_node(objs[i])
    if bag and bag['at'] >= len(by_rank):
        hard.add_node(bag_node)
    if group:
        graphs[gkey].add_node(sub)
        for j in group['deps']:
            graphs[gkey].add_dependency(sub, on=objs[j])
        dside = group.get('dependees_in', gkey)
        for k in group['dependees']:
            graphs[dside].add_dependency(objs[k], on=sub)
    implied = set()
    implied_key = gkey
    if group and not group['members']:
        implied_key = group.get('dependees_in', gkey)
        implied = {(k, j) for k in group['dependees'] for j in group['deps']}
        # (edges that exist in their own right stay)
        implied -= {(k, j) for k, j in implied
                    if scn.get('group_direct') and [k, j] in
                    scn['group_direct']}
    for i in by_rank:
        spec = specs[i]
        for key, graph in graphs.items():
            for j in spec[key]:
                if key == gkey and (i in members or j in members):
                    continue    # (said by the sub-graph node)
                if key == implied_key and (i, j) in implied:
                    continue    # (said by the empty sub-graph node)
                graph.add_dependency(objs[i], on=objs[j])
    return hard, soft


def initial_env(scn, mods):
    env = _initial_env(scn, mods)
    if scn.get('pickled_env') and not any(
            ent.get('handle') for ent in scn.get('init_env', {}).values()):
        # the environment comes straight out of a file (Env.from_file)
        import pickle
        env = pickle.loads(pickle.dumps(env))
    return env


def _initial_env(scn, mods):
    env_cls = mods['env'].Env
    status_enum = mods['task'].TaskStatus
    dct = {}
    for key, ent in sorted(scn.get('init_env', {}).items()):
        name = scn['tasks'][int(key)]['name']
        new = dict(ent)
        new['status'] = status_enum[ent['status']]
        if new.pop('handle', None):
            new['handle'] = HANDLE
        dct[name] = new
    return env_cls(dct)


# --------------------------------------------------------------------------
# one run

class RunResult:
    pass


def run_scenario(scn, chooser, *, max_steps=200000):
    if scn.get('wide'):
        max_steps = 4000000
    mods = load.load_sim()
    recorder = Recorder()
    lf = load.line_files(mods) if scn.get('linemode') else None
    sim = core.Sim(chooser, tick=scn['tick'], max_steps=max_steps,
                   line_files=lf, keep_trace=False, wall_limit=WALL_LIMIT)
    sim.fail_thread_start = scn.get('fail_thread_start')
    sim.interrupt_main_at = scn.get('interrupt_main_at')
    # while the master submits tasks (not while it starts or stops workers)
    sim.interrupt_main_in = ('_submit_tasks',)
    holder = {}

    def other_master(ntask):
        task_mod = mods['task']

        class Quick(task_mod.Task):
            def do(self, env, config):
                core.cur_sim().yield_point('work')
                return {self.name: {'x': 1}}, task_mod.TaskStatus.DONE

        graph = mods['depgraph'].DepGraph()
        quick = [Quick('other-%d' % k) for k in range(ntask)]
        for k, tsk in enumerate(quick):
            graph.add_node(tsk)
            if k:
                graph.add_dependency(tsk, on=quick[k - 1])
        try:
            env2 = mods['scheduler'].Scheduler(
                hard_graph=graph,
                backend=mods['queue'].QueueScheduling(n_workers=2)).schedule()
            holder['second'] = sorted(
                status_name(env2[t.name]['status']) for t in quick)
        except Exception as exc:   # noqa
            holder['second'] = 'raised %r' % (exc,)

    def main():
        second = None
        if scn.get('second_master'):
            second = core.shims()[0].Thread(
                target=other_master, args=(scn['second_master'],))
            second.start()
        try:
            return main_schedule()
        finally:
            if second is not None:
                second.join()

    def main_schedule():
        state = {'call': 0}
        objs = build_tasks(scn, mods, recorder, state=state)
        hard, soft = build_graphs(scn, mods, objs)
        if scn.get('built_twice'):
            mods['scheduler'].Scheduler(
                hard_graph=hard, soft_graph=soft,
                backend=mods['queue'].QueueScheduling(n_workers=1))
        if scn.get('defaults') and not scn.get('init_env'):
            if any(t['soft'] for t in scn['tasks']):
                sched = mods['scheduler'].Scheduler(hard_graph=hard,
                                                    soft_graph=soft)
            else:
                sched = mods['scheduler'].Scheduler(hard_graph=hard)
            holder['backend'] = sched.backend
            sim.mark('schedule-call')
            config = None
            got = sched.schedule()
            env = got
            holder['env'] = env
        else:
            env = initial_env(scn, mods)
            backend = mods['queue'].QueueScheduling(n_workers=scn['workers'])
            holder['backend'] = backend
            holder['env'] = env
            sched = mods['scheduler'].Scheduler(hard_graph=hard,
                                                soft_graph=soft,
                                                backend=backend)
            sim.mark('schedule-call')
            config = mods['config'].Config({})
            got = sched.schedule(env=env, config=config)
        for _ in range(scn.get('calls', 1) - 1):
            holder['first_returned_env'] = got is env
            state['call'] += 1
            if scn.get('second_env') == 'fresh':
                env = initial_env(scn, mods)
                holder['env'] = env
            if scn.get('defaults') and not scn.get('init_env') and \
                    'edges2' not in scn:
                # asked again, still without an environment: a new one
                sim.mark('schedule-call')
                got = sched.schedule()
                env = got
                holder['env'] = env
                continue
            if 'edges2' in scn:
                # a new Scheduler on the SAME backend object, same tasks,
                # graphs with additional edges
                scn2 = dict(scn, tasks=[dict(t) for t in scn['tasks']])
                for i, j, kind in scn['edges2']:
                    scn2['tasks'][i][kind] = scn2['tasks'][i][kind] + [j]
                    (objs[i].depends_on if kind == 'hard'
                     else objs[i].soft_depends_on).add(objs[j])
                hard2, soft2 = build_graphs(scn2, mods, objs)
                sched = mods['scheduler'].Scheduler(
                    hard_graph=hard2, soft_graph=soft2,
                    backend=holder['backend'])
            sim.mark('schedule-call')
            got = sched.schedule(env=env, config=config)
        return got

    def main_recording():
        try:
            return main()
        finally:
            # the instant schedule() comes back (or raises), before anybody
            # else gets to run
            holder['alive_at_return'] = [
                (t.tid, t.name, t.state) for t in sim.threads[1:]
                if t.state != 'D']

    outcome = sim.run(main_recording)
    res = RunResult()
    res.alive_at_return = holder.get('alive_at_return', [])
    res.second = holder.get('second')
    res.second_want = ['DONE'] * scn['second_master'] \
        if scn.get('second_master') else None
    res.sim = sim
    res.outcome = outcome
    res.main_exc = sim.main_exc
    res.returned_env = sim.main_result is not None and \
        sim.main_result is holder.get('env')
    res.main_done = sim.threads[0].state == 'D'
    res.execs = recorder.execs
    res.alive = [(t.tid, t.name, t.state, t.waiting_on)
                 for t in sim.threads if t.state != 'D']
    res.thread_excs = [(t.tid, type(t.exc).__name__, str(t.exc)[:200])
                       for t in sim.threads if t.exc is not None]
    env = holder.get('env')
    res.statuses = {}
    res.raw_status_types = {}
    if env is not None:
        dct = getattr(env, 'dictionary', None)
        if dct is None:
            dct = dict(env)
        for i, spec in enumerate(scn['tasks']):
            ent = dct.get(spec['name'])
            if isinstance(ent, dict) and 'status' in ent:
                res.statuses[i] = status_name(ent['status'])
                res.raw_status_types[i] = type(ent['status']).__name__
            else:
                res.statuses[i] = None
    res.queue_state = None
    backend = holder.get('backend')
    que = getattr(backend, 'queue', None)
    res.queue_unfinished = None
    if que is not None and hasattr(que, 'queue'):
        try:
            res.queue_state = len(que.queue)
        except TypeError:
            res.queue_state = None
        unfinished = getattr(que, 'unfinished_tasks', None)
        if isinstance(unfinished, int):
            res.queue_unfinished = unfinished
    return res


# --------------------------------------------------------------------------
# oracles: each returns a list of (violation class, signature, detail)

def terminated_normally(res):
    return res.outcome is not None and res.outcome[0] == 'ok' and res.main_done


def oracle_c01(scn, res):
    viol = []
    specs = scn['tasks']
    execs_by_task = {}
    for rec in res.execs:
        execs_by_task.setdefault(rec['task'], []).append(rec)
    last_call = max((rec['run'] for rec in res.execs), default=0)
    for rec in res.execs:
        i = rec['task']
        for j, stat, miss in rec['obs']:
            dep_execs = [d for d in execs_by_task.get(j, [])
                         if d['run'] == rec['run']]
            if stat not in FINAL:
                viol.append(('dep-not-final',
                             'dep-not-final:%s' % stat,
                             {'task': specs[i]['name'], 'dep': specs[j]['name'],
                              'status_seen': stat,
                              'enter_step': rec['enter_step']}))
                continue
            running = [d for d in dep_execs
                       if d['exit_step'] is None
                       or d['exit_step'] > rec['enter_step']
                       or d['enter_step'] > rec['enter_step']]
            if running:
                viol.append(('dep-running', 'dep-running',
                             {'task': specs[i]['name'], 'dep': specs[j]['name'],
                              'enter_step': rec['enter_step'],
                              'dep_exec': [(d['enter_step'], d['exit_step'])
                                           for d in running]}))
                continue
            final = res.statuses.get(j)
            if terminated_normally(res) and res.main_exc is None and \
                    rec['run'] == last_call and \
                    final is not None and final != stat:
                # "final" means final: what the task saw must still be the
                # dependency's state when the run is over
                viol.append(('dep-not-final', 'dep-status-changed-after-start',
                             {'task': specs[i]['name'], 'dep': specs[j]['name'],
                              'seen_at_start': stat, 'at_the_end': final}))
                continue
            if stat == 'DONE' and miss and dep_execs:
                # (a dependency that is DONE from an earlier run and was not
                # executed in this one has published nothing in this run)
                viol.append(('update-not-visible', 'update-not-visible',
                             {'task': specs[i]['name'], 'dep': specs[j]['name'],
                              'missing': miss[:6],
                              'enter_step': rec['enter_step']}))
    return viol


def oracle_c02(scn, res):
    '''Only judged on acyclic scenarios from an empty environment.'''
    viol = []
    specs = scn['tasks']
    if not terminated_normally(res):
        # termination itself is C03's business; what C02 states is that
        # every task ends in a final state, executed once or skipped
        kind = res.outcome[0] if res.outcome else 'none'
        if kind in ('deadlock', 'steplimit') and not res.main_done:
            stuck = [spec['name'] for i, spec in enumerate(specs)
                     if res.statuses.get(i) not in FINAL]
            if stuck:
                viol.append(('not-final', 'tasks-never-reach-a-final-state',
                             {'run': kind, 'tasks': stuck[:6],
                              'statuses': [res.statuses.get(i)
                                           for i in range(len(specs))]}))
        return viol
    if res.main_exc is not None:
        viol.append(('schedule-raised',
                     'schedule-raised:%s' % type(res.main_exc).__name__,
                     {'exception': repr(res.main_exc)[:300]}))
        return viol
    model = model_statuses(scn)
    counts = {}
    ncalls = scn.get('calls', 1)
    for rec in res.execs:
        counts[rec['task']] = counts.get(rec['task'], 0) + 1
    if ncalls > 1:
        # every call starts from an empty environment: each one executes
        # every task that is not skipped, once
        percall = {}
        for rec in res.execs:
            key = (rec['task'], rec['run'])
            percall[key] = percall.get(key, 0) + 1
        for i, spec in enumerate(specs):
            want_n = 0 if model[i] == 'SKIPPED' else 1
            for call in range(ncalls):
                if percall.get((i, call), 0) != want_n:
                    viol.append(('exec-count',
                                 'exec-count:%d-for-%d-in-call-%d' % (
                                     percall.get((i, call), 0), want_n, call),
                                 {'task': spec['name'], 'call': call}))
                    return viol
        counts = {i: percall.get((i, ncalls - 1), 0)
                  for i in range(len(specs))}
    for i, spec in enumerate(specs):
        got = res.statuses.get(i)
        want = model[i]
        if got != want:
            viol.append(('wrong-status',
                         'wrong-status:%s-for-%s:%s' % (
                             got if got in FINAL + ('WAITING', 'PENDING')
                             else 'other', want, spec['outcome']),
                         {'task': spec['name'], 'got': got, 'want': want,
                          'outcome': spec['outcome']}))
        elif res.raw_status_types.get(i) != 'TaskStatus':
            viol.append(('status-not-enum', 'status-not-enum',
                         {'task': spec['name'],
                          'type': res.raw_status_types.get(i)}))
        want_n = 0 if want == 'SKIPPED' else 1
        if counts.get(i, 0) != want_n:
            viol.append(('exec-count',
                         'exec-count:%d-for-%d' % (counts.get(i, 0), want_n),
                         {'task': spec['name'], 'executions': counts.get(i, 0),
                          'want': want_n}))
    return viol


def oracle_c03(scn, res):
    viol = []
    out = res.outcome
    if out is None:
        return [('harness', 'harness:no-outcome', {})]
    kind = out[0]
    if kind == 'deadlock':
        if res.main_done:
            viol.append(('worker-leak', 'worker-leak:after-%s'
                         % (type(res.main_exc).__name__
                            if res.main_exc is not None else 'return'),
                         {'blocked': res.alive,
                          'main_exc': repr(res.main_exc)[:200]}))
        else:
            died = sorted({e[1] for e in res.thread_excs})
            viol.append(('deadlock', 'deadlock:' +
                         ('worker-died-' + '+'.join(died) if died
                          else 'all-blocked'),
                         {'blocked': res.alive,
                          'worker_exceptions': res.thread_excs}))
    elif kind == 'steplimit':
        viol.append(('no-progress', 'no-progress:steplimit',
                     {'steps': res.sim.steps, 'alive': res.alive}))
    elif kind == 'wall-timeout':
        # the thread that holds the baton computes for ever without reaching
        # a synchronisation point (typical run: milliseconds)
        _STATE['spinning'] = True
        viol.append(('no-progress', 'no-progress:spinning',
                     {'wall_limit_s': WALL_LIMIT, 'steps': res.sim.steps,
                      'graph_api': scn.get('graph_api')}))
    elif kind == 'ok':
        if res.alive_at_return and res.second_want is None:
            viol.append(('worker-leak', 'worker-alive-when-the-call-returns',
                         {'alive': res.alive_at_return,
                          'main_exc': repr(res.main_exc)[:100]}))
        if res.main_exc is None and not res.returned_env:
            viol.append(('no-env-returned', 'no-env-returned', {}))
        if res.second_want is not None and res.second != res.second_want:
            viol.append(('other-master', 'the-other-scheduling-was-disturbed',
                         {'got': res.second, 'want': res.second_want}))
        if res.queue_state is not None and res.main_exc is None and \
                res.queue_state != 0:
            viol.append(('queue-not-empty', 'queue-not-empty',
                         {'queue': res.queue_state}))
        elif res.queue_unfinished:
            # items that were taken but never marked as done: the next
            # queue.join() on this backend would wait for ever
            viol.append(('queue-not-empty', 'queue-has-unfinished-items',
                         {'unfinished_tasks': res.queue_unfinished,
                          'main_exc': repr(res.main_exc)[:100]}))
    return viol


# --------------------------------------------------------------------------
# run-level helpers used by the checks

def horizon_guess(scn):
    return 60 + 45 * len(scn['tasks']) + 25 * scn['workers'] + \
        (600 if scn.get('linemode') else 0)


def draw_chooser(rng, scn):
    return policy.draw_policy(rng, nthreads=scn['workers'] + 1,
                              horizon=horizon_guess(scn),
                              max_off=40 if scn.get('linemode') else 12)


def run_seed(seed, gen_kwargs):
    rng = random.Random(seed)
    scn = gen_scenario(rng, **gen_kwargs)
    chooser = draw_chooser(rng, scn)
    res = run_scenario(scn, chooser)
    return scn, chooser, res


# --------------------------------------------------------------------------
# shrinking

def _flat(new):
    '''Shrunk scenarios are built node by node from the flat relation.'''
    if 'edges2' in new:
        ntask = len(new['tasks'])
        new['edges2'] = [e for e in new['edges2']
                         if e[0] < ntask and e[1] < ntask]
    if new.get('graph_api') == 'nested':
        new['graph_api'] = 'add'
    new.pop('group', None)
    return new


def _drop_task(scn, k):
    import copy
    new = _flat(copy.deepcopy(scn))
    tasks = new['tasks']
    del tasks[k]
    for tsk in tasks:
        for key in ('hard', 'soft'):
            tsk[key] = [j - 1 if j > k else j for j in tsk[key] if j != k]
    ienv = {}
    for key, ent in new.get('init_env', {}).items():
        idx = int(key)
        if idx == k:
            continue
        ienv[str(idx - 1 if idx > k else idx)] = ent
    new['init_env'] = ienv
    if 'edges2' in scn:
        new['edges2'] = [[i - 1 if i > k else i, j - 1 if j > k else j, kind]
                         for i, j, kind in scn['edges2']
                         if i != k and j != k]
    return new


def shrink_candidates(scn):
    '''Smaller variants of a scheduler scenario, most aggressive first.'''
    import copy
    ntask = len(scn['tasks'])
    if ntask > 1:
        for k in range(ntask - 1, -1, -1):
            yield _drop_task(scn, k)
    if scn['workers'] > 1 and not scn.get('defaults'):
        new = copy.deepcopy(scn)
        new['workers'] = scn['workers'] - 1
        if new.get('fail_thread_start', 0) > new['workers']:
            new['fail_thread_start'] = new['workers']
        yield new
    if scn.get('linemode'):
        new = copy.deepcopy(scn)
        new['linemode'] = False
        yield new
    for key in list(scn.get('init_env', {})):
        new = copy.deepcopy(scn)
        del new['init_env'][key]
        yield new
    for i, tsk in enumerate(scn['tasks']):
        for key in ('hard', 'soft'):
            for j in tsk[key]:
                new = _flat(copy.deepcopy(scn))
                new['tasks'][i][key].remove(j)
                yield new
        for field, plain in (('outcome', 'ok'), ('dur', 0), ('shared', False),
                             ('echo_status', False), ('hints', False),
                             ('surveys', False),
                             ('fragile_eq', False),
                             ('kind', 'task'), ('variant', 0),
                             ('name', 't%d' % i)):
            if tsk.get(field) != plain:
                new = copy.deepcopy(scn)
                new['tasks'][i][field] = plain
                yield new
    if scn['tick'] != 1e-4:
        new = copy.deepcopy(scn)
        new['tick'] = 1e-4
        yield new
    if scn.get('calls', 1) > 1 and 'edges2' not in scn:
        new = copy.deepcopy(scn)
        new['calls'] = 1
        yield new
    for k in range(len(scn.get('edges2', [])) - 1, -1, -1):
        if len(scn['edges2']) > 1:
            new = copy.deepcopy(scn)
            del new['edges2'][k]
            yield new
    if scn.get('defaults'):
        new = copy.deepcopy(scn)
        del new['defaults']
        yield new
    if scn.get('built_twice'):
        new = copy.deepcopy(scn)
        del new['built_twice']
        yield new
    if scn.get('pickled_env'):
        new = copy.deepcopy(scn)
        del new['pickled_env']
        yield new
    if scn.get('second_master'):
        new = copy.deepcopy(scn)
        del new['second_master']
        yield new
    if scn.get('interrupt_main_at'):
        new = copy.deepcopy(scn)
        del new['interrupt_main_at']
        yield new
    if scn.get('fail_thread_start'):
        new = copy.deepcopy(scn)
        del new['fail_thread_start']
        yield new
        if scn['fail_thread_start'] > 1:
            new = copy.deepcopy(scn)
            new['fail_thread_start'] -= 1
            yield new
    if scn.get('graph_api', 'add') != 'add':
        new = _flat(copy.deepcopy(scn))
        new['graph_api'] = 'add'
        yield new


def sched_facts(scn, res):
    facts = {}
    outs = {}
    for tsk in scn['tasks']:
        outs[tsk['outcome']] = outs.get(tsk['outcome'], 0) + 1
    for key, val in outs.items():
        facts['task-outcome:' + key] = val
    if res.thread_excs:
        facts['worker-thread-died-with-exception'] = len(res.thread_excs)
    if res.main_exc is not None:
        facts['schedule-raised:' + type(res.main_exc).__name__] = 1
    skipped = sum(1 for s in res.statuses.values() if s == 'SKIPPED')
    if skipped:
        facts['tasks-skipped'] = skipped
    if any(t['soft'] for t in scn['tasks']):
        facts['scenarios-with-soft-edges'] = 1
    if scn.get('init_env'):
        facts['scenarios-with-initial-env'] = 1
    if scn.get('cyclic_requested') and is_cyclic(scn):
        facts['scenarios-cyclic'] = 1
    facts['workers:%d' % scn['workers']] = 1
    facts['graphs-built-via:%s' % scn.get('graph_api', 'add')] = 1
    if scn.get('wide'):
        facts['scenarios-with-more-than-1000-tasks-ready-at-once'] = 1
    if scn.get('second_master'):
        facts['scenarios-with-a-second-master-on-its-own-backend'] = 1
    if scn.get('built_twice'):
        facts['scenarios-with-a-scheduler-built-twice-from-one-graph'] = 1
    if scn.get('defaults'):
        facts['scenarios-with-default-backend-env-config'] = 1
    if scn.get('calls', 1) > 1:
        facts['scenarios-scheduling-twice-on-one-backend'] = 1
    if scn.get('fail_thread_start'):
        facts['fault-configured:thread-start-fails'] = 1
    if scn.get('interrupt_main_at'):
        facts['fault-configured:keyboard-interrupt-in-the-main-thread'] = 1
    return facts
