"""Hand-made two-edition listings in the layout documented in
valjean/eponine/tripoli4/use.py, for result blocks that no example listing
under tests/ contains (NU and (Z,A) spectra, spectra with a vov column).  They
enter the corpus only if, complete, they parse (checked at start-up in a
fresh process); otherwise they are dropped and listed in the evidence, never
reported."""

HEAD = '''BATCH 20
initialization time (s): 7
'''

EDITION_HEAD = '''
 batch number : {batch}
*********************************************************
 RESULTS ARE GIVEN FOR SOURCE INTENSITY : 8.111452e+04
*********************************************************


 Mean weight leakage = 7.929746e+00\t sigma = 7.929746e+00\t sigma% = 1.000000e+02


 Edition after batch number : {batch}



******************************************************************************
RESPONSE FUNCTION : {response}
RESPONSE NAME :
ENERGY DECOUPAGE NAME : DEC_SPECTRE


 PARTICULE : NEUTRON
******************************************************************************

\t scoring mode : SCORE_SURF
\t scoring zone : \t Frontier \t volumes : 14,27


'''

EDITION_TAIL = '''


 simulation time (s) : {time}

'''

TAIL = '''
 Type and parameters of random generator at the end of simulation:
\t DRAND48_RANDOM 13531 45249 20024  COUNTER\t2062560


 simulation time (s): 253


=====================================================================
\tNORMAL COMPLETION
=====================================================================
'''

BLOCKS = {
    'flux-spectrum': ('FLUX', '''\t SPECTRUM RESULTS
\t number of first discarded batches : 0

\t group\t\t\t score\t\t sigma_% \t score/lethargy
Units:\t MeV\t\t\t neut.s^-1\t %\t\t neut.s^-1

2.000000e+01 - 1.000000e+00\t1.{batch}7419e+00\t8.719708e+01\t1.046074e+01
1.000000e+00 - 1.000000e-11\t2.{batch}7419e+00\t7.719708e+01\t2.046074e+01

\t ENERGY INTEGRATED RESULTS

\t number of first discarded batches : 0

number of batches used: {batch}\t3.614838e+00\t8.719708e+01
'''),
    'vov-spectrum': ('FLUX', '''\t SPECTRUM RESULTS
\t number of first discarded batches : 0

\t group\t\t\t score\t\t sigma_% \t score/lethargy\t vov
Units:\t MeV\t\t\t neut.s^-1\t %\t\t neut.s^-1

2.000000e+01 - 1.000000e+00\t1.{batch}7419e+00\t8.719708e+01\t1.046074e+01\t3.100000e-01
1.000000e+00 - 1.000000e-11\t2.{batch}7419e+00\t7.719708e+01\t2.046074e+01\t4.100000e-01

\t ENERGY INTEGRATED RESULTS

\t number of first discarded batches : 0

number of batches used: {batch}\t3.614838e+00\t8.719708e+01
'''),
    'nu-spectrum': ('NEUTRON MULTIPLICITY', '''\t NU RESULTS
\t number of first discarded batches : 0

\t range\t\t\t score\t\t sigma_%

0.000000e+00 - 1.000000e+00\t1.{batch}7419e+00\t8.719708e+01
1.000000e+00 - 2.000000e+00\t2.{batch}7419e+00\t7.719708e+01
2.000000e+00 - 3.000000e+00\t3.{batch}7419e-01\t6.719708e+01

\t NU INTEGRATED RESULTS

\t number of first discarded batches : 0

number of batches used: {batch}\t3.614838e+00\t8.719708e+01
'''),
    'za-spectrum': ('FISSION PRODUCTS', '''\t ZA RESULTS
\t number of first discarded batches : 0

\t (Z,A)\t\t\t score\t\t sigma_%

(36,90)\t1.{batch}7419e+00\t8.719708e+01
(36,91)\t2.{batch}7419e+00\t7.719708e+01
(37,90)\t3.{batch}7419e-01\t6.719708e+01
(37,91)\t4.{batch}7419e-01\t5.719708e+01

\t ZA INTEGRATED RESULTS

\t number of first discarded batches : 0

number of batches used: {batch}\t3.614838e+00\t8.719708e+01
'''),
}


def _with_hole(block):
    '''The same table as Tripoli-4 prints it without its '-a' option when the
    score of a middle row is zero: the row is not there.'''
    lines = block.splitlines(True)
    rows = [n for n, line in enumerate(lines)
            if line[:1] in '0123456789(' and 'e+0' in line or 'e-0' in line]
    rows = [n for n in rows if not lines[n].startswith('number')]
    if len(rows) < 3:
        return None
    del lines[rows[1]]
    return ''.join(lines)


def listings():
    out = []
    blocks = dict(BLOCKS)
    for name, (response, block) in sorted(BLOCKS.items()):
        holed = _with_hole(block)
        if holed is not None:
            blocks[name + '-with-a-hole'] = (response, holed)
    for name, (response, block) in sorted(blocks.items()):
        text = HEAD
        for batch, time in ((10, 126), (20, 253)):
            text += EDITION_HEAD.format(batch=batch, response=response)
            text += block.format(batch=batch)
            text += EDITION_TAIL.format(time=time)
        text += TAIL
        out.append({'name': 'handmade/%s.res' % name, 'path': None,
                    'base': 'handmade-%s.res' % name,
                    'data': text.encode('utf-8'), 'handmade': True})
    return out
